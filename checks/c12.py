"""C12 - a parser's result depends only on (text, filename), never on its
history; the same for a reused CLexer after input() and a reused CGenerator
after successful visits; ASTs from different calls share no nodes.

History explorer (mc/hist.py): every sequence of operations up to the depth
bound is replayed on a fresh real object and compared, call by call, with
brand-new instances.
"""
from __future__ import annotations

import gc
import itertools

from mc import core, hist, pristine, obs as O

PID = "C12"

# ---------------------------------------------------------------------------
# (1) one CParser, operations parse(p_i, f_j)
# ---------------------------------------------------------------------------
# one program per way of leaving state behind, plus pairs of programs that
# collide on what a (module-, class- or instance-level) cache could be keyed
# on while their expected results differ: the same directive text ('#line 7',
# '# 40', '#pragma keep this pending') under different file names / after a
# named marker / on another line; the same source line 'f(void){ T * x; }' at
# the same (line, column) with T a typedef or not; the same literal spellings
# and suffix tails at other positions; the same identifier as type and object
PROGRAMS = [
    ("declares-typedef", "typedef int T;\nf(void){ T * x; }"),
    ("declares-variable-of-same-name", "int T; int y = T * 2;"),
    ("probes-name-implicit-int", "int q;\nf(void){ T * x; }"),
    ("fails-in-two-nested-scopes-after-typedef", "typedef int T; void f(void){ { T x; x y; } }"),
    ("fails-in-lexer", "typedef char T; int a = 1 @ 2;"),
    ("changes-file-and-line", 'int before;\n#line 100 "inc.h"\ntypedef int U;\n#line 7\nU v;'),
    ("fails-with-pragma-string-pending", "int a\n#pragma keep this pending\n"),
    ("same-pragma-on-another-line", "#pragma keep this pending\nint a;"),
    ("fails-at-eof-inside-struct", "typedef int T; struct S { T a;"),
    ("empty", ""),
    ("k-and-r-definition", "int f(a, T) int a; int T; { return T * a; }"),
    ("result-depends-on-filename", "int a = ;"),
    ("fails-in-scope-shadowing-a-typedef", "typedef int T; int g(void){ int T; { T x; } }"),
    ("bare-line-directive", "int before;\n#line 7\nint after;"),
    ("bare-linemarker-and-line-directive", "int u;\n# 40\nint v;\n#line 7\nint w;"),
    ("literals", "unsigned a = 10u; long b = 0x10u; char c = 'u'; float d = 1.0f; char *s = \"u\";"),
    # the very first token of a text is an identifier that an earlier call
    # declared as a typedef (lexed before anything else of this call happens)
    ("first-token-is-the-typedef-name", "T x;"),
    ("first-token-names-an-implicit-int-function", "T() { return 0; }"),
    # an unmatched '}' that the lexer reads (lookahead) before a name is declared
    ("stray-rbrace-after-declarator", "int x }"),
    ("fails-with-two-braces-open", "void f(void) { { int y ]"),
    ("same-literals-and-tails-elsewhere", "long b =\n 10u + 010u; unsigned long c = 10ul; double e = 10.0f + 0x1.0p1f;\nchar *s = \"u\" \"u\"; int w = L'u';"),
]
# One program per RARELY TAKEN parser branch, each in an accepted and in a
# failing (cut-off) variant: state that leaks is usually set on a rare branch
# and observed on a common one.  They are parsed under one file name each
# (alternating), the PROGRAMS above under both.
RARE = [
    # runs of adjacent string literals (initializer, call arguments,
    # _Static_assert message, _Pragma operand); a lexer error right after a run
    ("string-runs", 'char *s = "12" "34"; void f(void){ g("ab" "cd", "x" "y"); } _Static_assert(1, "m" "n"); _Pragma("a" "b") int z;'),
    ("string-run-then-illegal-character", 'char *s = "ab" "cd" @;'),
    ("string-run-in-call-then-bad-octal", 'void f(void){ g("p" "q" 09); }'),
    # declarations without a type specifier outside file scope
    ("typeless-declaration-in-block-then-typedef-redeclared", "typedef int T; void f(void){ extern helper(); { int T; T = 2; } }"),
    ("typeless-declaration-in-for-init(fails)", "void f(void){ for (register i = 0; i < 3; i++) ; }"),
    ("typeless-declaration-in-k&r-list(fails)", "int g(a) register a; { return a; }"),
    ("typedef-name-redeclared-as-member-parameter-local", "typedef int T; struct S { char T; }; int f(int T); void h(void){ int T; T = 1; }"),
    # for-declaration whose body reads the enclosing '}' as lookahead
    ("for-declaration-with-if-without-else-before-rbrace", "void f(void){ for (int i = 0; i < 2; i++) if (i) g(); }"),
    ("for-declaration-with-if-without-else-cut-off", "void f(void){ for (int i = 0; i < 2; i++) if (i) g(); "),
    # three-deep braces, a local shadowing a typedef that is used after the inner block
    ("three-deep-braces-shadowed-typedef-used-after-inner-block", "typedef int T; void f(void){ { int T; { int q; } T = 1; } T y; }"),
    ("three-deep-braces-shadowed-typedef-cut-off", "typedef int T; void f(void){ { int T; { int q; } T = 1; } T y"),
    # _Atomic(...), statement expression, K&R definition with enumerators in the list
    ("atomic-statement-expression-k&r-enumerators", "typedef int T; _Atomic(T) b; int x = ({ int y = 1; y; }); int k(a) enum { A, B } a; { return A; }"),
    ("atomic-specifier-cut-off", "typedef int T; _Atomic(T a;"),
    ("statement-expression-cut-off", "int x = ({ int y = 1; y );"),
    ("k&r-enumerator-list-cut-off", "int k(a) enum { A, B a; { return A; }"),
    # [*], designators, _Static_assert in a struct and in a for-init
    ("star-bound-designators-static-assert-in-struct-and-for", 'void f(int n, int a[*]); struct S s = { .a = 1, .b[2] = 3 }; struct Z { int a; _Static_assert(1, "m"); }; void h(void){ for (_Static_assert(1, "x"); ;) ; }'),
    ("star-bound-cut-off", "void f(int n, int a[*);"),
    ("designator-cut-off", "struct S s = { .a = 1, .b[2] = };"),
    ("static-assert-in-struct-cut-off", 'struct Z { int a; _Static_assert(1, "m" };'),
    # #pragma / #line in odd places
    ("directives-inside-struct-and-after-if", 'struct S {\n#pragma pack\n int a; }; void f(void){ if (1)\n#line 5 "z.h"\n ; }'),
    ("pragma-inside-initializer(fails)", "int a[] = {\n#pragma inside\n1 };"),
    # a #pragma (with and without text) where the grammar allows none: the
    # parse is abandoned right after the PPPRAGMA token
    ("pragma-with-text-after-equals(fails)", "int x =\n#pragma pack(1)\n5;"),
    ("pragma-with-text-between-specifier-and-declarator(fails)", "int\n#pragma p q\nx;"),
    ("pragma-with-text-in-enumerator-list(fails)", "enum E { A,\n#pragma in enum\nB };"),
    ("pragma-with-text-in-parameter-list(fails)", "void f(int a,\n#pragma in params\nint b);"),
    ("pragma-without-text-in-expression(fails)", "int y = 1 +\n#pragma\n2;"),
]
# Operations that are expensive to run (explored to depth 2 with everything
# else, not deeper): a parse that ends in a NON-ParseError exception - deep
# nesting beyond the interpreter's recursion limit (3000 in every process of
# the harness; about 8 frames per level, 372 levels still parse) - after
# typedefs and objects were declared
HEAVY = [
    ("recursion-error-after-typedef-and-object", "typedef int T; int v; void f(void){ int y = " + "(" * 640 + "1" + ")" * 640 + "; }"),
]
FILENAMES = ["a.c", "dir/b.h"]
# the depth-4 alphabet: one program per way of leaving state behind
LEAN = ("declares-typedef", "declares-variable-of-same-name", "probes-name-implicit-int",
        "fails-in-two-nested-scopes-after-typedef", "fails-in-lexer", "changes-file-and-line",
        "fails-with-pragma-string-pending", "same-pragma-on-another-line", "fails-at-eof-inside-struct",
        "empty", "k-and-r-definition", "result-depends-on-filename",
        "fails-in-scope-shadowing-a-typedef", "bare-line-directive")
CONTROL_PROGRAMS = ("declares-typedef", "result-depends-on-filename")


class ParserSpec:
    """variant 'real': CParser(); variant 'control': CParser(lexer=StickyLexer)
    where StickyLexer (harness code, public seams only) keeps the file name of
    its first input() - a planted history dependence the explorer must find."""

    def __init__(self, variant="real"):
        from pycparser.c_parser import CParser
        from pycparser.c_lexer import CLexer

        self.name = {"real": "CParser", "drop": "CParser(ASTs dropped)"}.get(variant, "control-parser")
        self.variant = variant
        self.ops = parser_ops(variant)

        class StickyLexer(CLexer):
            _first = None

            def input(self, text, filename=""):
                if self._first is None:
                    self._first = filename
                super().input(text, self._first)

        self._mk = (lambda: CParser(lexer=StickyLexer)) if variant == "control" else (lambda: CParser())

    def fresh(self):
        return self._mk()

    def apply(self, obj, i):
        pristine.touch("CParser.parse")
        op = self.ops[i]
        if self.variant == "drop":
            # every AST is dropped before the next call (an id()-keyed cache in
            # the parser would meet recycled addresses)
            o, ast = O.parse_obs(obj, op["text"], op["filename"])
            del ast
            gc.collect()
            return o, None
        return O.parse_obs(obj, op["text"], op["filename"])

    def invariants(self, obj, h, obs, keep):
        # ASTs returned by different calls share no nodes
        last = keep[-1]
        if last is None:
            return []
        mine = O.node_ids(last)
        out = []
        for m in range(len(keep) - 1):
            if keep[m] is None:
                continue
            if keep[m] is last:
                out.append(("shared-nodes:same-FileAST-object", f"calls {m} and {len(keep)-1} returned the same object"))
                break
            common = mine.keys() & O.node_ids(keep[m]).keys()
            if common:
                cls = sorted({mine[c] for c in common})
                out.append((f"shared-nodes:{cls[0]}", f"calls {m} and {len(keep)-1} share {len(common)} nodes of classes {cls}"))
                break
        return out


def parser_spec(variant="real"):
    return ParserSpec(variant)


# ---------------------------------------------------------------------------
# (2) one CLexer: input(t_i), k x token(), input(t_j), full drain
# ---------------------------------------------------------------------------
LEX_TEXTS = [
    ("pragma-string-pending", "int a;\n#pragma pack ( 1 )\nint b;", "p.c"),
    ("mid-line-directive", 'int x;\n#line 50 "other.h"\nint y;\n  T z;', "l.c"),
    ("errors-with-non-raising-callback", "a @ b $ 'ab\n c \"open\n d", "e.c"),
    ("brace-callbacks", "{ T { a } } }", "b.c"),
    ("many-lines-and-columns", "x\n\n\n   y\tz\n", "m.c"),
    ("bare-and-double-pragma", "#pragma\n#pragma z\n# 7 \"q.c\" 1 3\nfoo", "g.c"),
    ("bad-line-directive-then-tokens", '#line "f.h"\nu\n#line 9\nv', "d.c"),
    ("empty", "", ""),
    # the same bare directive texts with different file names in force, the
    # same pragma text as in the first entry on another line
    ("bare-line-directives", "a\n#line 7\nb\n# 40\nc T", "bl.c"),
    # texts abandoned right after a PPPRAGMA token (k pulls up to and
    # including it), with text, without text, at the very start
    ("pragma-first-then-more", "#pragma first thing\nint q;", "pf.c"),
    ("two-pragmas-with-text-in-a-row", "x =\n#pragma one 1\n#pragma two 2\ny", "pp.c"),
    ("bare-line-directive-after-named-marker", '# 3 "nm.h"\nx\n#line 7\ny\n#pragma pack ( 1 )\nz', "nm.c"),
]


class LexHarness:
    """A CLexer with recording, non-raising callbacks (public constructor)."""

    def __init__(self):
        from pycparser.c_lexer import CLexer

        pristine.touch("CLexer")
        self.log = []
        self.lex = CLexer(
            error_func=lambda msg, line, col: self.log.append(("error", msg, line, col)),
            on_lbrace_func=lambda: self.log.append(("lbrace",)),
            on_rbrace_func=lambda: self.log.append(("rbrace",)),
            type_lookup_func=self._lookup,
        )

    def _lookup(self, name):
        self.log.append(("lookup", name))
        return name == "T"

    def input(self, i):
        _, text, fn = LEX_TEXTS[i]
        del self.log[:]
        self.lex.input(text, fn)

    def pull(self):
        t = self.lex.token()
        o = None if t is None else (t.type, t.value, t.lineno, t.column)
        return (o, self.lex.filename)

    def drain(self, limit=10_000):
        """Everything observable from here to end of input: tokens with the
        file name in force after each, the callback log, one extra token()
        after the end."""
        toks = []
        for _ in range(limit):
            p = self.pull()
            toks.append(p)
            if p[0] is None:
                break
        else:
            return ("runaway",)
        after = self.pull()
        return ("drain", tuple(toks), tuple(self.log), after)


def _lex_baseline_work(i):
    h = LexHarness()
    h.input(i)
    return h.drain()


def lex_baseline(only=None):
    """Drain of every text by a fresh lexer, each in its own pristine child."""
    idx = list(range(len(LEX_TEXTS))) if only is None else sorted(set(only))
    res = pristine.pristine_map(_lex_baseline_work, idx)
    exp, unstable = {}, []
    for i, (a, b) in zip(idx, res):
        exp[i] = a
        if a != b:
            unstable.append((i, a, b))
    return exp, unstable


def _lex_sig(e, g):
    if g[0] != "drain" or e[0] != "drain":
        return "runaway"
    if [t[0] for t in e[1]] != [t[0] for t in g[1]]:
        et, gt = [t[0] for t in e[1]], [t[0] for t in g[1]]
        for a, b in zip(et, gt):
            if a != b:
                if a is None or b is None or (a[0], a[1]) != (b[0], b[1]):
                    return "tokens"
                if a[2] != b[2]:
                    return "token-line"
                return "token-column"
        return "tokens"
    if [t[1] for t in e[1]] != [t[1] for t in g[1]]:
        return "filename"
    if e[2] != g[2]:
        return "callbacks"
    return "after-end"


def _lex_work(task):
    """All chains input(t_i0), k0 x token(), input(t_i1), k1 x token(), ...,
    input(t_j), drain - for one first text."""
    first, chain, exp = task
    npulls = [len(exp[i][1]) + 1 for i in range(len(LEX_TEXTS))]  # token() calls until None, +1 beyond
    histories = applied = 0
    states = set()
    fails = []
    dirty_kinds = set()
    nt = len(LEX_TEXTS)
    for rest in itertools.product(range(nt), repeat=chain - 1):
        dirty = (first,) + rest[:-1]
        j = rest[-1] if rest else None
        if j is None:
            continue
        for ks in itertools.product(*[range(npulls[i] + 1) for i in dirty]):
            h = LexHarness()
            for i, k in zip(dirty, ks):
                h.input(i)
                for _ in range(k):
                    h.pull()
                applied += 1 + k
            states.add(hist.state_digest(h.lex))
            lx = h.lex
            dirty_kinds.add((getattr(lx, "_pending_tok", None) is not None,
                             getattr(lx, "_filename", None) != LEX_TEXTS[dirty[-1]][2],
                             bool(h.log and any(e[0] == "error" for e in h.log))))
            h.input(j)
            got = h.drain()
            applied += 1 + len(got[1]) if got[0] == "drain" else 1
            histories += 1
            states.add(hist.state_digest(h.lex))
            if got != exp[j]:
                if len(fails) < 20:
                    fails.append((f"CLexer:reuse:{_lex_sig(exp[j], got)}",
                                  {"part": "lexer", "dirty": [[LEX_TEXTS[i][0], k] for i, k in zip(dirty, ks)],
                                   "dirty_idx": [[i, k] for i, k in zip(dirty, ks)], "then": j},
                                  f"expected {str(exp[j])[:200]} got {str(got)[:200]}"))
    return histories, applied, states, fails, dirty_kinds


# ---------------------------------------------------------------------------
# (3) one CGenerator: visit(ast_i)
# ---------------------------------------------------------------------------
GEN_SOURCES = {
    "nested": "void f(int a){ { { int b; } {} } if (a) { a; } else { { a++; } } while (a) {} }",
    "bodies": "struct S { int a; struct { int b; union { char c; } u; } in; } s; enum E { A, B = 2 } e; struct Z {} z;",
    "funcs": "int g(void){ return 1; }\nint h(a, b) int a; char b; { return a + b; }\nstatic void k(void){}",
    "stmts": "int m(int x){ switch (x) { case 1: x++; break; case 2: { x--; } default: ; } for (;;) { if (x) continue; else break; } do x++; while (x); L: return x; }",
}
# round 8: labels without a statement list of their own (`default:` directly
# followed by another label) - the early-return paths of visit_Case/visit_Default
GEN_SOURCES["labels"] = "int n(int x){ switch (x) { default: case 1: x++; case 2: case 3: ; } return x; }"
GEN_SOURCES["local"] = "void f(int a){ struct L { int x; union { char c; } u; } l; if (a) { enum { P, Q } e; struct M { int m; } mm; } }"
GEN_ASTS = [
    ("file:nested-compounds", "nested", ""),
    ("file:struct-enum-bodies", "bodies", ""),
    ("file:function-definitions", "funcs", ""),
    ("file:statements", "stmts", ""),
    ("bare:Decl-with-struct-body", "bodies", "ext[0]"),
    ("bare:Struct", "bodies", "ext[0].type.type"),
    ("bare:Enum", "bodies", "ext[1].type.type"),
    ("bare:Compound", "nested", "ext[0].body"),
    ("bare:empty-Compound", "funcs", "ext[2].body"),
    ("bare:FuncDef-K&R", "funcs", "ext[1]"),
    ("bare:Switch", "stmts", "ext[0].body.block_items[0]"),
    ("bare:If-inside-For", "stmts", "ext[0].body.block_items[1].stmt.block_items[0]"),
    ("bare:Switch-with-empty-default", "labels", "ext[0].body.block_items[0]"),
    # struct / union / enum bodies defined INSIDE a function body, visited as
    # part of the file, of the function, of the enclosing statement, and
    # directly - in every order (sequences), so that one definition node is
    # reached at different indentation levels by one generator
    ("file:local-bodies", "local", ""),
    ("bare:FuncDef-with-local-bodies", "local", "ext[0]"),
    ("bare:local-Decl-with-struct-body", "local", "ext[0].body.block_items[0]"),
    ("bare:local-Struct", "local", "ext[0].body.block_items[0].type.type"),
    ("bare:If-around-local-enum-and-struct", "local", "ext[0].body.block_items[1]"),
    ("bare:nested-Decl-with-enum-body", "local", "ext[0].body.block_items[1].iftrue.block_items[0]"),
]


def _resolve(root, path):
    x = root
    if path:
        x = eval("x." + path, {"x": root})  # noqa: S307 - fixed strings above
    return x


class GenSpec:
    def __init__(self, reduce_parentheses=0):
        from pycparser.c_parser import CParser
        from pycparser.c_generator import CGenerator

        pristine.touch("CParser.parse (inputs of the generator)")
        # reduce_parentheses: 0 / 1 for a plain CGenerator, or the name of a
        # generator subclass of the instance alphabet (mc/obs.py)
        self.sub = reduce_parentheses if isinstance(reduce_parentheses, str) else ""
        self.name = "CGenerator" if not self.sub else f"CGenerator-subclass({self.sub})"
        self.rp = bool(reduce_parentheses) and not self.sub
        self._G = CGenerator if not self.sub else O.generator_class(self.sub)
        roots = {k: CParser().parse(v, k + ".c") for k, v in GEN_SOURCES.items()}
        self.ops, self.nodes = [], []
        for what, src, path in GEN_ASTS:
            node = _resolve(roots[src], path)
            self.ops.append({"what": what, "source": GEN_SOURCES[src], "path": path,
                             "node": type(node).__name__, "reduce_parentheses": self.rp})
            self.nodes.append(node)

    def fresh(self):
        return self._G() if self.sub else self._G(reduce_parentheses=self.rp)

    def reference_fresh(self):
        # the re-entrant subclass must print what a plain generator prints
        if self.sub == "reentrant":
            from pycparser.c_generator import CGenerator
            return CGenerator()
        return self.fresh()

    def apply(self, obj, i):
        pristine.touch("CGenerator.visit")
        return O.visit_obs(obj, self.nodes[i]), None

    def invariants(self, obj, h, obs, keep):
        if obs[-1][0] == "text" and obj.indent_level != 0:
            return [("indent_level!=0", f"indent_level == {obj.indent_level} after a successful top-level visit of {self.ops[h[-1]]['what']}")]
        return []


# (3b) one CGenerator, every operation on a FRESH AST that is dropped afterwards
# (ids of dead nodes get recycled): struct / union / enum definitions of
# different shapes at file scope, nested, and at block scope, built so that the
# texts of one group allocate the same number of nodes
FRESH_TEXTS = [
    ("file:struct", "struct S { int a; char b; } v;"),
    ("file:union", "union U { long c; short d; } v;"),
    ("file:enum", "enum E { A, B } v;"),
    ("file:struct-in-struct", "struct S { int a; struct { int x; } in; } v;"),
    ("file:union-in-union", "union U { int a; union { long y; } in; } v;"),
    ("file:enum-in-struct", "struct S { int z; enum { P, Q } e; } v;"),
    ("block:struct", "void f(void){ struct S { int a; char b; } v; }"),
    ("block:union", "void f(void){ union U { long c; short d; } v; }"),
    ("block:enum", "void f(void){ enum E { A, B } v; }"),
    ("block:union-in-struct", "void f(void){ struct S { int q; union { long y; } in; } v; }"),
]


class GenFreshSpec:
    def __init__(self, reduce_parentheses=0):
        from pycparser.c_parser import CParser
        from pycparser.c_generator import CGenerator

        self.name = "CGenerator(fresh ASTs)"
        self.rp = bool(reduce_parentheses)
        self._G, self._P = CGenerator, CParser
        self.ops = [{"what": w, "text": t, "reduce_parentheses": self.rp} for w, t in FRESH_TEXTS]

    def fresh(self):
        return self._G(reduce_parentheses=self.rp)

    def apply(self, obj, i):
        pristine.touch("CParser.parse + CGenerator.visit")
        ast = self._P().parse(self.ops[i]["text"], "fresh%d.c" % i)
        o = O.visit_obs(obj, ast)
        del ast
        gc.collect()
        return o, None

    def invariants(self, obj, h, obs, keep):
        if obs[-1][0] == "text" and obj.indent_level != 0:
            return [("indent_level!=0", f"indent_level == {obj.indent_level} after a successful visit of {self.ops[h[-1]]['what']}")]
        return []


def gen_fresh_spec(rp=0):
    return GenFreshSpec(rp)


def long_rotations(n, reps):
    """Fixed long histories over n operations: the identity order, its
    reverse and two stride permutations, each repeated `reps` times."""
    base = list(range(n))
    perms = [base, base[::-1]]
    for stride in (3, 7):
        if n % stride == 0:
            stride += 1
        perms.append([(k * stride) % n for k in range(n)])
    return [p * reps for p in perms]


def gen_spec(rp=0):
    return GenSpec(rp)


# ---------------------------------------------------------------------------
def parser_ops(variant="real"):
    ops = [{"what": w, "text": t, "filename": f} for (w, t) in PROGRAMS for f in FILENAMES]
    if variant == "control":
        return [o for o in ops if o["what"] in CONTROL_PROGRAMS]
    ops += [{"what": w, "text": t, "filename": FILENAMES[k % 2]} for k, (w, t) in enumerate(RARE)]
    ops += [{"what": w, "text": t, "filename": FILENAMES[k % 2]} for k, (w, t) in enumerate(HEAVY)]
    return ops


def heavy_indices():
    n = len(PROGRAMS) * len(FILENAMES) + len(RARE)
    return list(range(n, n + len(HEAVY)))


def core_indices():
    """PROGRAMS x both file names (the operations explored one level deeper
    than the whole alphabet)."""
    return list(range(len(PROGRAMS) * len(FILENAMES)))


def lean_indices():
    return [i for i, o in enumerate(parser_ops("real")) if o["what"] in LEAN]


def _left_behind_work(i):
    """Evidence only: what one parse leaves in the object (tolerant of renamed
    private attributes)."""
    spec = ParserSpec("real")
    p = spec.fresh()
    spec.apply(p, i)
    cl = getattr(p, "clex", None)
    ts = getattr(p, "_tokens", None)
    return {
        "open_scopes": len(getattr(p, "_scope_stack", [None])) - 1,
        "names_left": sorted(k for s in getattr(p, "_scope_stack", []) for k in s),
        "pending_token": getattr(cl, "_pending_tok", None) is not None,
        "lexer_filename": getattr(cl, "filename", None),
        "unread_buffered_tokens": (len(getattr(ts, "_buffer", [])) - getattr(ts, "_index", 0)) if ts is not None else None,
    }


PREF = ("checks.c12", "parser_spec", ("real",))
CREF = ("checks.c12", "parser_spec", ("control",))
GVARIANTS = (0, 1, "deco", "ownvisit", "reentrant")
GREF = {rp: ("checks.c12", "gen_spec", (rp,)) for rp in GVARIANTS}
FREF = {rp: ("checks.c12", "gen_fresh_spec", (rp,)) for rp in (0, 1)}
DREF = ("checks.c12", "parser_spec", ("drop",))


def run(tier):
    R = core.Run(PID, tier, "model_checking")
    quick = tier == "quick"
    samples = []
    states = set()
    transitions = traces = 0

    # (B) every reference observation ("brand-new instance") is taken in its
    # own pristine process (mc/pristine.py), forked from a reserve that is
    # itself forked here, before this process, its pmap workers or anything
    # else has executed pycparser code; twice, in two separate processes
    pristine.start_reserve()
    core.pool()
    pops = parser_ops("real")
    NP = len(pops)
    base = {}
    unstable = []
    for ref, n in [(PREF, NP), (CREF, len(parser_ops("control"))),
                   (GREF[0], len(GEN_ASTS)), (GREF[1], len(GEN_ASTS)),
                   (GREF["deco"], len(GEN_ASTS)), (GREF["ownvisit"], len(GEN_ASTS)),
                   (GREF["reentrant"], len(GEN_ASTS)),
                   (FREF[0], len(FRESH_TEXTS)), (FREF[1], len(FRESH_TEXTS))]:
        base[ref], u = hist.baseline(ref, n)
        unstable += [(ref, i, a, b) for i, a, b in u]
    lex_exp, lex_unstable = lex_baseline()
    R.set("baselines_from_pristine_processes",
          sum(len(t) for t in base.values()) + len(lex_exp))
    # a brand-new parser gives the same whether or not its AST is kept
    base[DREF] = base[PREF]
    for ref, i, a, b in unstable:
        nm = "CGenerator" if ref[1].startswith("gen") else "CParser"
        R.fail(f"{nm}:fresh-instance-unstable:{O.obs_sig(a, b)}",
               {"spec": list(ref), "history": [i], "unstable": True},
               f"two pristine processes disagree on a brand-new instance: {O.obs_detail(a, b)}")
    for i, a, b in lex_unstable:
        R.fail("CLexer:fresh-instance-unstable", {"part": "lexer", "dirty": [], "dirty_idx": [], "then": i},
               "two pristine processes disagree on a fresh lexer's drain")

    if not hist.selfcheck():
        R.fail("harness:history-explorer-selfcheck", {"part": "selfcheck"},
               "the explorer did not find the planted history dependence of the toy object / was not silent on the clean toy / replay not deterministic")

    # (0) positive control on the real parser through public seams only
    ctl = hist.explore(CREF, 2, base[CREF], plen=1)
    ctl_sigs = sorted({f[0] for f in ctl["fails"]})
    R.set("control_planted_dependence_signatures", ctl_sigs)
    if not any("coord.file" in s or "message" in s for s in ctl_sigs):
        R.fail("harness:control-not-detected", {"part": "control"},
               "a lexer that keeps its first file name was not flagged by the history explorer")

    # (1) CParser: the whole alphabet to depth d_all, the core (PROGRAMS x 2
    # file names) one level deeper, the lean alphabet one level deeper still
    # in thorough; an exploration over a smaller alphabet only runs the
    # histories that are longer than what the larger one already covered
    core_idx, lean_idx = core_indices(), lean_indices()
    d_all, d_core, d_lean = (2, 3, 3) if quick else (3, 3, 4)
    depth = d_lean
    heavy = set(heavy_indices())
    light_idx = [i for i in range(NP) if i not in heavy]
    # everything (with the expensive operations) to depth 2
    r = hist.explore(PREF, 2, base[PREF], plen=2)
    parts = [("all", NP, 2, 1)]
    extra = []
    if d_all > 2:
        extra.append(("all-but-expensive", light_idx, d_all, 3))
    if d_core > d_all:
        extra.append(("core", core_idx, d_core, d_all + 1))
    if d_lean > max(d_all, d_core):
        extra.append(("lean", lean_idx, d_lean, max(d_all, d_core) + 1))
    for nm, idx, dd, ml in extra:
        r2 = hist.explore(PREF, dd, base[PREF], plen=2, alphabet=idx, min_len=ml)
        parts.append((nm, len(idx), dd, ml))
        for k in ("histories", "applied", "same_twice"):
            r[k] += r2[k]
        r["states"] |= r2["states"]
        r["fails"] += r2["fails"]
        for k, v in r2["last_state"].items():
            r["last_state"].setdefault(k, set()).update(v)
        for k, v in r2["outcome_kinds"].items():
            r["outcome_kinds"][k] = r["outcome_kinds"].get(k, 0) + v
    expected_histories = sum(n ** l for nm, n, dd, ml in parts for l in range(ml, dd + 1))
    R.set("parser_alphabets(name,ops,depth,min_len)", parts)
    R.fail_many(r["fails"])
    states |= {"P" + s for s in r["states"]}
    transitions += r["applied"]
    traces += r["histories"]
    R.set("parser_histories", r["histories"])
    R.set("parser_operations", r["nops"])
    R.set("parser_distinct_end_states", len(r["states"]))
    R.set("parser_distinct_expected_results", r["expected_distinct"])
    R.set("parser_outcome_kinds_of_last_call", r["outcome_kinds"])
    R.set("parser_same_op_twice_histories", r["same_twice"])
    # evidence only (not a verdict): is the end state a function of the last op?
    R.set("parser_end_state_determined_by_last_op",
          all(len(v) == 1 for v in r["last_state"].values()))
    idx = [i for i in core_idx if pops[i]["filename"] == FILENAMES[0]]  # evidence only: the core programs
    left = pristine.pristine_map(_left_behind_work, idx, repeat=1)
    R.set("parser_state_left_behind_per_program", {pops[i]["what"]: l[0] for i, l in zip(idx, left)})
    if r["histories"] != expected_histories:
        R.fail("harness:parser-histories-missing", {"part": "parser"}, str(r["histories"]))
    # distinct expected results: every (program, file name) except the empty text
    # (the number of distinct object states is evidence, not a guard: it
    # depends on how the tree under test cleans up)
    if r["expected_distinct"] < NP * 3 // 4 or len(r["outcome_kinds"]) < 2:
        R.fail("harness:parser-part-vacuous", {"part": "parser"},
               f"distinct expected={r['expected_distinct']} states={len(r['states'])}")
    samples += [[pops[i]["what"] + "@" + pops[i]["filename"] for i in h]
                for h in ((0, 4, 1), (7, 2), (12, 13, 12), (6, 0), (27, 26), (21, 5, 4))]

    # (1b) the same parser histories with every AST dropped (and collected)
    # before the next call, plus fixed long histories in pristine processes
    ddepth = 2 if quick else 3
    d = hist.explore(DREF, 2, base[DREF], plen=1)
    if ddepth > 2:
        d2 = hist.explore(DREF, ddepth, base[DREF], plen=2, alphabet=core_idx, min_len=3)
        for k in ("histories", "applied"):
            d[k] += d2[k]
        d["states"] |= d2["states"]
        d["fails"] += d2["fails"]
    lf, lap = hist.long_histories(DREF, base[DREF], long_rotations(NP, 2))  # incl. the expensive operation
    R.fail_many(lf)
    R.fail_many(d["fails"])
    states |= {"P" + s for s in d["states"]}
    transitions += d["applied"] + 2 * lap
    traces += d["histories"] + 2 * len(long_rotations(NP, 2))
    R.set("parser_histories_with_dropped_asts", d["histories"])
    R.set("parser_long_histories", [len(h) for h in long_rotations(NP, 2)])
    drop_hist = d["histories"]

    # (2) CLexer
    chain = 2 if quick else 3
    nt = len(LEX_TEXTS)
    lres = core.pmap(_lex_work, [(i, chain, lex_exp) for i in range(nt)], chunksize=1)
    lex_hist = lex_applied = 0
    lex_states = set()
    dirty_kinds = set()
    lex_fails = []
    for hcount, ap, st, fl, dk in lres:
        lex_hist += hcount
        lex_applied += ap
        lex_states |= st
        dirty_kinds |= dk
        lex_fails += fl
    lex_fails.sort(key=lambda f: (len(f[1]["dirty_idx"]), f[1]["dirty_idx"], f[1]["then"]))
    R.fail_many(lex_confirm(lex_exp, lex_fails))
    states |= {"L" + s for s in lex_states}
    transitions += lex_applied
    traces += lex_hist
    R.set("lexer_histories", lex_hist)
    R.set("lexer_distinct_states", len(lex_states))
    R.set("lexer_dirty_kinds(pending,filename-changed,after-error)", sorted(map(list, dirty_kinds)))
    if lex_hist < nt ** 2 * 3 or len({O.digest(lex_exp[i]) for i in range(nt)}) < nt \
            or not any(k[0] for k in dirty_kinds) or not any(k[1] for k in dirty_kinds) \
            or not any(k[2] for k in dirty_kinds):
        R.fail("harness:lexer-part-vacuous", {"part": "lexer"},
               f"histories={lex_hist} dirty kinds={sorted(dirty_kinds)}")
    samples.append({"lexer": [LEX_TEXTS[0][0], 6, LEX_TEXTS[3][0]]})

    # (3) CGenerator
    gdepth = 3 if quick else 4
    gen_hist = 0
    gen_states = set()
    ng = len(GEN_ASTS)
    # instances of four classes (plain with either setting, a subclass
    # overriding visit_X methods, a subclass overriding visit()); the workers
    # run all of them, so class-level state shared between generator classes
    # shows as a difference from the pristine baseline of the class
    for rp in GVARIANTS:
        # the subclass variants stay at depth 3 in both tiers
        g = hist.explore(GREF[rp], gdepth if rp in (0, 1) else 3, base[GREF[rp]], plen=2,
                         others=[(GREF[o], base[GREF[o]]) for o in GVARIANTS if o != rp])
        R.fail_many(g["fails"])
        gen_hist += g["histories"]
        transitions += g["applied"]
        traces += g["histories"]
        gen_states |= g["states"]
        if ng < 8 or g["expected_distinct"] < ng - 1 or g["outcome_kinds"].get("text", 0) != g["histories"] \
                or any(base[GREF[rp]][i][0] != "text" for i in range(ng)):
            R.fail("harness:generator-part-vacuous", {"part": "generator"},
                   f"ops={ng} distinct texts={g['expected_distinct']} kinds={g['outcome_kinds']}")
    # (3b) fresh AST per visit, dropped afterwards; long rotations
    nf = len(FRESH_TEXTS)
    fresh_hist = 0
    for rp in (0, 1):
        g = hist.explore(FREF[rp], gdepth, base[FREF[rp]], plen=2)
        rots = long_rotations(nf, 6) + long_rotations(nf, 3)
        lf, lap = hist.long_histories(FREF[rp], base[FREF[rp]], rots)
        # the long histories ran in pristine processes: their cases replay
        # exactly, so they are recorded first (first case per signature is kept)
        R.fail_many(lf)
        R.fail_many(g["fails"])
        R.add("generator_long_history_failures", len(lf))
        fresh_hist += g["histories"] + 2 * len(rots)
        transitions += g["applied"] + 2 * lap
        traces += g["histories"] + 2 * len(rots)
        gen_states |= g["states"]
        if g["expected_distinct"] < nf or any(base[FREF[rp]][i][0] != "text" for i in range(nf)):
            R.fail("harness:generator-fresh-part-vacuous", {"part": "generator"},
                   f"distinct texts={g['expected_distinct']}")
    R.set("generator_fresh_ast_histories", fresh_hist)
    R.set("generator_long_histories", [len(h) for h in long_rotations(nf, 6) + long_rotations(nf, 3)])
    states |= {"G" + s for s in gen_states}
    R.set("generator_operations", ng)
    R.set("generator_histories", gen_hist)
    R.set("generator_distinct_states", len(gen_states))
    samples.append({"generator": [GEN_ASTS[7][0], GEN_ASTS[0][0], GEN_ASTS[4][0]]})
    pristine.stop_reserve()

    R.set("states", len(states))
    R.set("transitions", transitions)
    R.set("traces_validated_against_impl", traces)
    R.set("evaluations", traces + ctl["histories"])
    # non-trivial = histories of length >= 2 (the compared call really ran on a used object)
    nontriv = (r["histories"] - NP) + (drop_hist - NP) + lex_hist + (gen_hist - len(GVARIANTS) * ng) + (fresh_hist - 2 * nf)
    R.set("distinct_nontrivial", nontriv)
    R.set("distinct_outcomes", r["expected_distinct"])
    R.set("bounds", {"parser_sequences<=": {"all %d ops" % NP: d_all, "core %d ops" % len(core_idx): d_core,
                                            "lean %d ops" % len(lean_idx): d_lean}, "parser_ops": NP,
                     "lexer_chain_inputs": chain, "lexer_texts": nt,
                     "parser_sequences_with_dropped_asts<=": ddepth,
                     "generator_sequences<=": gdepth, "generator_asts": ng,
                     "generator_fresh_ast_texts": nf,
                     "generator_variants": ["reduce_parentheses=False", "reduce_parentheses=True", "subclass overriding visit_ID/visit_Constant/visit_BinaryOp", "subclass overriding visit()", "re-entrant subclass (reference: plain CGenerator)"]})
    R.assumptions += [
        f"histories consist of the listed operations only ({len(PROGRAMS)} programs x {len(FILENAMES)} file names + {len(RARE)} rare-branch programs; {nt} lexer texts; {ng} ASTs)",
        "generator histories contain successful visits only, as the property states",
        "reference observations come from pristine processes (one per observation); the processes that run "
        "the histories run many of them, so module-level state is part of what is compared",
    ]
    return R.finish(
        samples,
        "every sequence <= depth of parse(p_i, f_j) on one CParser, every input(t_i)/k token() calls/"
        "input(t_j)/drain chain on one CLexer, every sequence <= depth of visit(ast_i) on one CGenerator; "
        "each history is replayed from scratch on a fresh real object and the n-th observation "
        "(canon AST with coords / exception type+message / token stream+callback log / text) is compared "
        "with a brand-new instance's in a pristine process; node-identity sets of ASTs of different calls "
        "must be disjoint; indent_level must be 0 after each visit. states = distinct deep canonical object "
        "states (obj.__dict__ incl. lexer and token stream) reached, transitions = operations applied, "
        "traces = histories executed. non-trivial = histories in which the compared call ran on an "
        "already used object (length >= 2)",
    )


def _lex_replay(dirty_idx, then, prelude=()):
    for i in prelude:
        h0 = LexHarness()
        h0.input(i)
        h0.drain()
    h = LexHarness()
    for i, k in dirty_idx:
        h.input(i)
        for _ in range(k):
            h.pull()
    h.input(then)
    return h.drain()


def _lex_confirm_work(task):
    exp, dirty_idx, then, prelude = task
    return _lex_replay(dirty_idx, then, prelude) != exp


def lex_confirm(lex_exp, fails):
    """Self-contained reproduction of the smallest case per signature in a
    pristine process (see hist.confirm)."""
    seen, out = set(), []
    for sig, case, detail in fails:
        if sig not in seen:
            seen.add(sig)
            cands = [[]] + [[k] for k in range(len(LEX_TEXTS))]
            res = pristine.pristine_map(
                _lex_confirm_work,
                [(lex_exp[case["then"]], case["dirty_idx"], case["then"], pre) for pre in cands], repeat=1)
            case = dict(case, self_contained=False)
            for pre, (bad,) in zip(cands, res):
                if bad:
                    case.update(prelude=pre, self_contained=True)
                    if pre:
                        detail += f" [needs process state: reproduced in a pristine process after ANOTHER fresh lexer drained text {pre}]"
                    break
        out.append((sig, case, detail))
    return out


def replay(rep):
    pristine.start_reserve()
    try:
        return _replay(rep)
    finally:
        pristine.stop_reserve()


def _replay(rep):
    c = rep["case"]
    part = c.get("part")
    if part == "lexer":
        exp, _ = lex_baseline([c["then"]])
        got = _lex_replay(c["dirty_idx"], c["then"], c.get("prelude", ()))
        if c.get("prelude"):
            print("first, on another fresh lexer: drain of", [LEX_TEXTS[i][0] for i in c["prelude"]])
        print("history:", c["dirty"], "then input", LEX_TEXTS[c["then"]][0])
        print("expected (fresh lexer in a pristine process):", exp[c["then"]])
        print("observed:", got)
        return 0 if got == exp[c["then"]] else 1
    if part in ("selfcheck", "control", "parser", "generator"):
        print("harness-level failure; re-run the check")
        return 1
    ref = (c["spec"][0], c["spec"][1], tuple(c["spec"][2]))
    h = tuple(c["history"])
    pre_all = list(c.get("prelude", ()))
    pre = tuple(k for k in pre_all if isinstance(k, int))
    table, unstable = hist.baseline(ref, None, only=set(h) | set(pre))
    if c.get("long"):
        # address reuse depends on the allocation sequence: re-run the long
        # history where it was found, in a pristine process
        (res,) = pristine.pristine_map(hist._rotation_work, [(ref, table, list(h))], repeat=1)
        digs, viol = res[0]
        print(f"long history of {len(h)} operations over {ref}:")
        for n, sig, detail in viol:
            print(f"violation at event {n} (operation {h[n]}): {sig}: {detail}")
        return 1 if viol else 0
    spec = hist.install_baseline(ref, table)
    if c.get("unstable"):
        for i, a, b in unstable:
            print(f"operation {spec.ops[i]}: two pristine processes disagree: {O.obs_detail(a, b)}")
        return 1 if unstable else 0
    for k in pre_all:
        if isinstance(k, int):
            print(f"first, on ANOTHER fresh instance: {spec.ops[k]}")
            spec.apply(spec.fresh(), k)
        else:
            r2 = (k[0][0], k[0][1], tuple(k[0][2]))
            t2, _ = hist.baseline(r2, None, only=[k[1]])
            s2 = hist.install_baseline(r2, t2)
            print(f"first, on a fresh instance of ANOTHER class ({s2.name}): {s2.ops[k[1]]}")
            s2.apply(s2.fresh(), k[1])
    obj, obs, keep, viol = hist.build(spec, h)
    for n, i in enumerate(h):
        e = hist.expected(spec, i)
        print(f"call {n}: {spec.ops[i]}")
        print("   fresh instance (pristine process):", "FileAST" if e[0] == "ok" else e)
        print("   this instance :", ("FileAST" + ("" if obs[n] == e else " (differs: " + O.obs_detail(e, obs[n]) + ")")) if obs[n][0] == "ok" else obs[n])
    for n, sig, detail in viol:
        print(f"violation at call {n}: {sig}: {detail}")
    if not viol and not c.get("self_contained", True):
        print("not reproduced in a fresh process: the recorded failure depended on what the worker process had run before")
    return 1 if viol else 0

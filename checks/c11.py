"""C11 - coordinates point at the real source location of every construct and
error.

Every pool program is rendered by the layout model (which records where every
token ends up and which logical file/line is in force there) in three base
layouts x every single linemarker insertion (file and line change) at every
gap.  Every coordinate in the AST must be the start of a real token with that
token's logical file/line; ID / Constant / declared names / enumerators /
labels must sit exactly on the token that spells them; listed node classes
must carry a coordinate.  Every single illegal-character injection must be
reported at exactly its logical position.
"""
from __future__ import annotations

from mc import core, progpool, corpus, layout

PID = "C11"
FILENAME = "main.c"

MUST_HAVE = {
    "Decl", "Typedef", "FuncDef", "ID", "Constant", "BinaryOp", "UnaryOp", "TernaryOp",
    "Assignment", "Cast", "ArrayRef", "StructRef", "FuncCall", "If", "While", "DoWhile",
    "For", "Switch", "Case", "Default", "Label", "Goto", "Break", "Continue", "Return",
    "Compound", "EmptyStatement", "Pragma", "StaticAssert", "Enumerator",
}
# an unnamed parameter is a declaration too: its node is a Typename (a Typename
# that is the operand of sizeof / a cast is not a declaration and not demanded)
MUST_HAVE_UNDER = {("Typename", "ParamList")}
ILLEGAL = ["@", "`", "\\"]
# classes whose coordinate must be the token that opens the construct
# ("a token of the input that lies inside the construct the node represents")
ANCHOR = {
    "If": {"if"}, "While": {"while"}, "For": {"for"}, "DoWhile": {"do"}, "Switch": {"switch"},
    "Case": {"case"}, "Default": {"default"}, "Return": {"return"}, "Break": {"break"},
    "Continue": {"continue"}, "Goto": {"goto"}, "CompoundLiteral": {"("}, "Cast": {"("},
    "StaticAssert": {"_Static_assert"}, "Enum": {"enum"}, "Alignas": {"_Alignas"},
    "Compound": {"{", "("},  # or a pragma token: a pragma-prefixed statement is wrapped at its first pragma
}


def base_layouts(n):
    yield "line", [" "] * (n - 1)
    yield "tokperline", ["\n"] * (n - 1)
    yield "indented", [("\n    " if i % 3 == 2 else "  ") for i in range(n - 1)]
    # blank lines that contain blanks and tabs between the tokens
    yield "blanklines", [("\n  \n\t\n " if i % 2 == 0 else " \n \t \n") for i in range(n - 1)]


def walk(node, out, parent=None):
    from pycparser import c_ast

    out.append((node, parent))
    for s in node.__slots__:
        if s in ("coord", "__weakref__"):
            continue
        v = getattr(node, s)
        if isinstance(v, c_ast.Node):
            walk(v, out, node)
        elif isinstance(v, (list, tuple)):
            for e in v:
                if isinstance(e, c_ast.Node):
                    walk(e, out, node)


def check_ast(ast, lay, fails, text, counts):
    """Evaluate the coordinate clauses on one parsed layout."""
    from pycparser import c_ast

    table = {}
    later_files = []
    for i, t in enumerate(lay.stream):
        table[(t.lfile, t.lline, t.col)] = (i, t)
    files_by_index = [t.lfile for t in lay.stream]
    bypos = {}
    for i, t in enumerate(lay.stream):
        bypos.setdefault((t.lline, t.col), []).append((i, t))
    nodes = []
    walk(ast, nodes)
    for node, parent in nodes:
        cls = node.__class__.__name__
        c = node.coord
        if c is None:
            if cls in MUST_HAVE or (cls, parent.__class__.__name__) in MUST_HAVE_UNDER:
                if cls == "Decl" and node.name is None:
                    sub = "unnamed"
                else:
                    sub = "named"
                fails.append((f"{cls}:no-coord:{sub}", {"text": text, "filename": FILENAME}, "node without coordinate"))
            continue
        counts["coords"] = counts.get("coords", 0) + 1
        key = (c.file, c.line, c.column)
        hit = table.get(key)
        if hit is None:
            # classify: right line/column but a file in force at a later token?
            cand = bypos.get((c.line, c.column))
            if cand:
                i, t = cand[0]
                if c.file in (files_by_index[i + 1 :] + [lay.final_file]) and c.file != t.lfile:
                    fails.append(("wrong-file:lookahead", {"text": text, "filename": FILENAME},
                                  f"{cls} at {c}: token {t.value!r} is in {t.lfile}:{t.lline}, the name {c.file!r} only comes into force later"))
                else:
                    fails.append((f"{cls}:wrong-file-other", {"text": text, "filename": FILENAME}, f"{c} vs token in {t.lfile}"))
            else:
                anyline = [t for t in lay.stream if t.col == c.column]
                fails.append((f"{cls}:not-a-token", {"text": text, "filename": FILENAME}, f"{c} is not the start of any token"))
            continue
        i, t = hit
        # exact-token clauses
        want = None
        if cls == "ID":
            want = node.name
        elif cls == "Constant":
            want = None  # checked by prefix below (adjacent literals are concatenated)
            v = node.value
            def _body(lit):
                return lit[lit.index('"') + 1:] if '"' in lit else lit

            # adjacent string literals are concatenated (the result may carry a
            # later literal's prefix): the coordinate is the first literal's
            if not (t.value == v or (node.type == "string" and '"' in t.value
                                     and _body(v).startswith(_body(t.value)[:-1]))):
                fails.append(("Constant:wrong-token", {"text": text, "filename": FILENAME}, f"{c}: token {t.value!r} does not spell {v!r}"))
        elif cls == "TypeDecl" and node.declname:
            want = node.declname
        elif cls == "Enumerator":
            want = node.name
        elif cls == "Label":
            want = node.name
        anchor = ANCHOR.get(cls)
        if cls == "UnaryOp" and node.op in ("sizeof", "_Alignof"):
            anchor = {node.op}
        if cls == "Compound" and t.origin in ("pragma", "pragmastr"):
            anchor = None  # a pragma-prefixed statement is wrapped at its first pragma (word or text)
        if anchor is not None and t.value not in anchor:
            fails.append((f"{cls}:outside-construct", {"text": text, "filename": FILENAME},
                          f"{c}: token {t.value!r} is not the token that opens a {cls} ({sorted(anchor)})"))
        if want is not None and t.value != want:
            if True:
                fails.append((f"{cls}:wrong-token", {"text": text, "filename": FILENAME}, f"{c}: token {t.value!r} does not spell {want!r}"))


def _dirs(g):
    """g = None: no directive; g = int: a linemarker to a far line of a new
    file in gap g; g = ('reset', k): a linemarker in gap k that restarts at
    line 1 of a new file, so that later tokens collide on (line, column) with
    earlier tokens of another file."""
    if g is None:
        return None
    if isinstance(g, (tuple, list)) and g[0] == "run":
        # a run of directives on consecutive lines: the first names a file, the
        # last only a line number (the name stays in force), and the reverse
        k = g[1]
        if k % 2 == 0:
            return {k: [layout.line_directive(40 + k, f"run{k}.h", flags=(1,), keyword=False),
                        layout.line_directive(300 + 5 * k, keyword=(k % 4 == 0))]}
        return {k: [layout.line_directive(7000 + k, keyword=True),
                    layout.line_directive(60 + k, f"nur{k}.h", keyword=(k % 4 == 1)),
                    layout.line_directive(500 + 3 * k, keyword=False)]}
    if isinstance(g, (tuple, list)):
        k = g[1]
        # (every second one restarts at line 0, which cpp itself emits: '# 0 "<built-in>"')
        return {k: [layout.line_directive(k % 2, f"r{k}.h", flags=(1,), keyword=False)]}
    # every third name contains an escaped quote and a blank (what cpp emits
    # for such a file): the name is everything between the outer quotes
    name = f'in\\"c {g}.h' if g % 3 == 2 else f"inc{g}.h"
    return {g: [layout.line_directive(100 + 7 * g, name, flags=(1,), keyword=(g % 2 == 0))]}


def pragma_respacings(toks):
    """The blanks inside a #pragma line are layout: every pragma token with
    blanks between '#' and the word (and between the word and the text); the
    coordinates of Pragma nodes / wrapping Compounds must still name a token."""
    out = []
    for i, t in enumerate(toks):
        if "#" in t and layout.is_pragma_token(t):
            body = t.rstrip("\n")
            text = body[body.index("pragma") + 6:].lstrip(" \t")
            for hg, tg in ((" ", " "), ("\t", "  "), ("  \t ", "\t")):
                alt = list(toks)
                alt[i] = "#" + hg + "pragma" + ((tg + text) if text else "") + "\n"
                out.append(alt)
    return out


def evaluate(toks, lname, g, counts, filename=None):
    """Render one (layout, linemarker gap) variant and evaluate every clause.
    Returns (accepted, fails)."""
    filename = FILENAME if filename is None else filename
    seps = dict(base_layouts(len(toks)))[lname]
    lay = layout.lay_out(toks, seps, _dirs(g), filename=filename)
    o = core.parse_outcome(lay.text, filename)
    fails = []
    case = {"tokens": toks, "layout": lname, "gap": g, "text": lay.text, "filename": filename}
    if o[0] != "ok":
        if g is not None:
            fails.append(("rejected-with-linemarker", case, str(o[1:])[:100]))
        return False, fails
    raw = []
    check_ast(o[1], lay, raw, lay.text, counts)
    for sig, _, det in raw:
        fails.append((sig, case, det))
    return True, fails


def evaluate_error(toks, lname, pos, ch):
    nt = len(toks)
    seps = dict(base_layouts(nt))[lname]
    tk = toks[:pos] + [ch] + toks[pos:]
    sp = (list(seps[:pos]) + ([" "] if nt else []) + list(seps[pos:]))[: len(tk) - 1]
    # (every third marker re-bases to line 0, which cpp emits for its built-in files)
    dirs = {max(0, pos - 1): [layout.line_directive(0 if pos % 3 == 0 else 50 + pos, "e.h", keyword=False)]}
    lay = layout.lay_out(tk, sp, dirs, filename=FILENAME, paste="space")
    tp = lay.toks[pos]
    o = core.parse_outcome(lay.text, FILENAME)
    case = {"tokens": toks, "layout": lname, "pos": pos, "ch": ch, "text": lay.text}
    if o[0] != "perr":
        return [("illegal-char:not-ParseError", case, str(o[:2])[:100])]
    want = f"{tp.lfile}:{tp.lline}:{tp.col}: "
    if o[1].startswith(want):
        return []
    if "Illegal character" in o[1]:
        return [("illegal-char:wrong-location", case, f"want {want!r} got {o[1][:60]!r}")]
    # the parser failed on an earlier token (the lexer had not reached the
    # character yet): that location must designate a real token too
    m = o[1].split(": ")[0]
    keys = {f"{t.lfile}:{t.lline}:{t.col}" for t in lay.stream} | {FILENAME} | {t.lfile for t in lay.stream}
    if m not in keys:
        later = {t.lfile for t in lay.stream}
        sig = "parse-error:location-not-a-token"
        parts = m.rsplit(":", 2)
        if len(parts) == 3 and parts[0] in later:
            sig = "parse-error:wrong-file:lookahead"
        return [(sig, case, o[1][:80])]
    return []


def _work(task):
    items = task
    n = 0
    fails = []
    counts = {}
    progs = 0
    for origin, toks in items:
        nt = len(toks)
        if nt == 0:
            continue
        ok_any = False
        for lname, _ in base_layouts(nt):
            gaps = [None] + list(range(nt + 1))
            if lname not in ("indented", "blanklines"):
                gaps += [("reset", k) for k in range(1, nt + 1)]
            if lname == "line":
                gaps += [("run", k) for k in range(nt + 1)]
            for g in gaps:
                acc, fl = evaluate(toks, lname, g, counts)
                n += 1
                fails.extend(fl)
                if not acc and g is None:
                    break
                ok_any = ok_any or acc
                # the unnamed file "" (parse() without a file name) for short programs
                if nt <= 14 and lname == "line" and not isinstance(g, tuple):
                    acc2, fl2 = evaluate(toks, lname, g, counts, filename="")
                    n += 1
                    fails.extend(fl2)
        if ok_any:
            progs += 1
            for alt in pragma_respacings(toks):
                for lname in ("line", "tokperline"):
                    for g in (None, 0, len(alt)):
                        acc, fl = evaluate(alt, lname, g, counts)
                        n += 1
                        fails.extend(fl)
    return n, fails, counts, progs


def _err_work(task):
    items = task
    n = 0
    fails = []
    for origin, toks in items:
        nt = len(toks)
        for lname in ("line", "tokperline"):
            for pos in range(nt + 1):
                for ch in ILLEGAL:
                    n += 1
                    fails.extend(evaluate_error(toks, lname, pos, ch))
    return n, fails


def run(tier):
    R = core.Run(PID, tier, "model_checking")
    quick = tier == "quick"
    pool = progpool.build_pool(tier, parts=("A", "M", "K1"), model_tier="quick")
    items = []
    for origin, text in pool:
        toks = corpus.lex_tokens(text)
        if 0 < len(toks) <= (30 if quick else 60):
            items.append((origin, toks))
    for name, toks in corpus.small_corpus_tokens(60 if quick else 130):
        items.append((f"K:{name}", toks))
    seen = set()
    uniq = []
    for o, t in sorted(items, key=lambda x: (len(x[1]), x[1])):
        k = tuple(t)
        if k not in seen:
            seen.add(k)
            uniq.append((o, t))
    n = progs = 0
    counts = {}
    for cnt, fl, cs, pg in core.pmap(_work, core.chunked(uniq, 15), chunksize=1):
        n += cnt
        progs += pg
        R.fail_many(fl)
        for k, v in cs.items():
            counts[k] = counts.get(k, 0) + v
    err_items = [(o, t) for o, t in uniq if len(t) <= (12 if quick else 20)]
    en = 0
    for cnt, fl in core.pmap(_err_work, core.chunked(err_items, 15), chunksize=1):
        en += cnt
        R.fail_many(fl)
    if progs < 300 or counts.get("coords", 0) < 100000:
        R.fail("vacuous", {"programs": progs, "coords": counts.get("coords", 0)}, "too little explored")
    R.set("states", progs)
    R.set("transitions", n + en)
    R.set("traces_validated_against_impl", n + en)
    R.set("evaluations", n + en)
    R.set("distinct_nontrivial", progs)
    R.set("coordinates_checked", counts.get("coords", 0))
    R.set("illegal_char_injections", en)
    R.set("pool_parts", getattr(progpool.build_pool, "sizes", {}))
    R.set("bounds", {"max_tokens": 30 if quick else 60, "layouts": 3, "linemarkers": "one per gap, file and line change",
                     "illegal_chars": ILLEGAL})
    R.assumptions.append("the layout model's logical (file, line) bookkeeping follows C99 6.10.4 / GNU linemarkers (checked against the lexer by C09)")
    return R.finish(
        [" ".join(t) for _, t in core.pick_samples(uniq)],
        "every distinct token sequence of the bounded pool x 3 layouts x a linemarker in every gap (model "
        "states = programs, transitions = rendered layouts replayed on the real parser); every AST coordinate "
        "checked against the renderer's token table; every single illegal-character injection's error location",
    )


def replay(rep):
    c = rep["case"]
    print("text:", repr(c["text"][:400]))
    if "ch" in c:
        fl = evaluate_error(c["tokens"], c["layout"], c["pos"], c["ch"])
    else:
        _, fl = evaluate(c["tokens"], c["layout"], c["gap"], {}, c.get("filename"))
    for sig, _, det in fl:
        print(" ", sig, "-", det)
    if not fl:
        print("all coordinate clauses hold")
    return 1 if fl else 0

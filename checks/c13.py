"""C13 - separate parser / generator / visitor instances never influence each
other, in whatever order their steps are scheduled.

Schedule explorer (mc/sched.py): every task runs in its own thread under a
cooperative scheduler; all schedules within a preemption bound (and, for the
smallest pair, all interleavings) are executed on the real code and every
task's result is compared with its result when run alone.
"""
from __future__ import annotations

from mc import core, pristine, sched, obs as O

PID = "C13"

# clashing programs: T is a typedef in one, a variable in another, only probed
# in a third; every program changes file name and line number half-way, and
# every task passes its own file name
PROGS = {
    "A": ("pa.c", 'typedef int T;\n#line 10 "a.h"\nT x;'),
    "B": ("pb.c", 'int T;\n#line 20 "b.h"\nint y = T * 2;'),
    "C": ("pc.c", 'void f(void){\n#line 30 "c.h"\nT * x; }'),
    "D": ("pd.c", 'typedef char T;\n#line 40 "d.h"\nT t = ;'),
    # the SAME bare directives ('#line 7', '# 40': no file name, so the file
    # name of the parse itself stays in force) under different file names, the
    # same literal spelling and the same identifiers at the same (line, column)
    "E": ("pe.c", 'typedef int T;\n#line 7\nT\n# 40\nx = 10u;'),
    "F": ("pf.c", 'int T;\n#line 7\nint y =\n# 40\nT * 10u;'),
    "G": ("pg.c", 'typedef int T;\n#line 7 "g.h"\nT\n# 40\nx = 10u;'),
    # <= 7-token programs for call granularity / all interleavings
    "a": ("qa.c", 'typedef int T;\n#line 10 "a.h"\nT x;'),
    "b": ("qb.c", 'int T,\n#line 20 "b.h"\ny = T;'),
    "c": ("qc.c", 'int x;\n#line 30 "c.h"\nT * y;'),
    "e": ("qe.c", 'typedef int T;\n#line 7\nT x;'),
    "f": ("qf.c", 'int T,\n#line 7\ny = T;'),
    # '#pragma <text>' lines (a PPPRAGMA token followed by a pending
    # PPPRAGMASTR) at file scope and inside a function body, with different
    # texts, lines and columns; P3 also has a bare '#pragma'
    "P1": ("p1.c", '#pragma alpha one\nint a;\nvoid f(void){\n#pragma alpha two\n a; }'),
    "P2": ("p2.c", 'int b;\n  #pragma beta one\nvoid g(void){ b;\n#pragma beta two\n}'),
    "P3": ("p3.c", '#pragma\n#pragma gamma three\nint c;'),
    # pairs aligned token for token (same token indices, lines and columns):
    # T is a typedef in U*, an object in V*, so every speculative or
    # position-keyed decision is taken at the same position with the opposite
    # outcome: cast vs parenthesised operand, sizeof(type) vs sizeof(expr);
    # declaration vs expression statement, label vs expression statement,
    # compound literal vs call; abstract declarator vs parenthesised parameter
    # name, prototype vs identifier list
    "U1": ("u1.c", 'typedef int T; int x = (T) + 1, s = sizeof (T);'),
    "V1": ("v1.c", 'static  int T; int x = (T) + 1, s = sizeof (T);'),
    "U2": ("u2.c", 'typedef int T; void f(int x){ T * x; x : x ; x = (T){ 1 } ; }'),
    "V2": ("v2.c", 'static  int T; void f(int x){ T * x; x = x ; x = (T)( 1 ) ; }'),
    "U3": ("u3.c", 'typedef int T; void g(int (T)); int h(T);'),
    "V3": ("v3.c", 'static  int T; void g(int (T)); int h(T);'),
    # rarely taken parser branches, where leaking state is usually set, next
    # to programs with the common branch that observes it
    # - for-declaration whose body reads the enclosing '}' as lookahead | three-
    #   deep braces with a local shadowing a typedef that is used afterwards
    "R0": ("r0.c", "void f(void){ for (int i = 0; i < 2; i++) if (i) g(); }"),
    "R1": ("r1.c", "typedef int T; void f(void){ { int T; { int q; } T = 1; } T y; }"),
    # - declaration without a type specifier in a block / in a K&R list (the
    #   latter is rejected) | a typedef name redeclared as member and parameter
    "N0": ("n0.c", "void f(void){ extern helper(); helper(); }"),
    "N1": ("n1.c", "typedef int T; struct S { char T; }; int f(int T);"),
    "N2": ("n2.c", "int g(a) register a; { return a; }"),
    # - runs of adjacent string literals | a run followed by a lexer error
    "S0": ("s0.c", 'char *s = "12" "34"; int t = g("ab" "cd");'),
    "S1": ("s1.c", 'char *s = "ab" "cd" @;'),
    # - _Atomic(...), statement expression | K&R definition with enumerators, [*]
    "M0": ("m0.c", "typedef int T; _Atomic(T) b; int x = ({ int y = 1; y; });"),
    "M1": ("m1.c", "int k(a) enum { A, B } a; { return A; } void f(int n, int a[*]);"),
    # shallow | deep: X is short; Y nests DEEP_K parentheses, about 8 Python
    # frames each (measured: the deepest nesting that parses is 372 at a
    # recursion limit of 3000 and 1247 at 10000), i.e. clearly more frames
    # than the limit every execution starts with and clearly fewer than 10000
    "X": ("px.c", 'int s = (1 + 2) * 3;'),
    "Y": ("py.c", "int v = " + "(" * 640 + "1" + ")" * 640 + ";"),
    # control programs (no #line: the planted leak is in the initial file name)
    "LA": ("la.c", "typedef int T; T x;"),
    "LB": ("lb.c", "int T; int y = T * 2;"),
}
GEN_SRC = {
    "deep": "void f(int a){ { { { a++; } } } if (a) { while (a) { a--; } } }",
    "flat": "struct S { int m; } s; int g(void){ return 1; }",
    # the same source (equal nodes, separate AST objects) printed by two
    # generators with different settings: the texts differ in parentheses
    "par0": "int v = (a + b) + (c * d) - (a - (b - c));",
    "par1": "int v = (a + b) + (c * d) - (a - (b - c));",
}
GEN_RP = {"par1": True}
# one source for instances of different generator CLASSES (each task parses its
# own AST): identifiers, constants, binary operators with parentheses that
# reduce_parentheses removes, statements
for _k in ("mix0", "mix1"):
    GEN_SRC[_k] = "int v = (a + 1) * (b - 2); void f(int a){ if (a > 0) { a = a * (3 + v); } return; }"
for _k in ("mini0", "mini1", "mini2"):  # three instances: a smaller source keeps bound 3 affordable
    GEN_SRC[_k] = "int v = (a + 1) * (b - 2);"
VIS_SRC = {
    "v1": "int a = b + 1; int c = a * 2;",
    "v2": "int f(int p){ return p - q; }",
}


def _raw_parse(parser_factory, text, fn):
    try:
        return ("ast", parser_factory().parse(text, fn))
    except RecursionError:
        return ("exc", "RecursionError", "")
    except Exception as e:  # noqa
        return ("exc", type(e).__name__, str(e))


def _canon_raw(raw):
    if raw[0] == "ast":
        return ("ok", core.canon_coord(raw[1]))
    return raw


class Scenario:
    """tasks: list of (kind, key, granularity)
       kind 'parse'   key in PROGS,   granularity 'token' | 'call'
                      | 'split'  (token points plus one point between the
                                  construction of the CParser and parse())
                      | 'sparse' (long input: the first 6 token pulls and then
                                  every 64th pull are points)
       kind 'ctor'    only constructs a CParser (points before and after)
       an optional 4th field names the class of the instance:
         gen:    deco (overrides visit_ID / visit_Constant / visit_BinaryOp),
                 ownvisit (overrides visit() itself), rpsub (subclass with
                 reduce_parentheses=True); default: plain CGenerator
                 reentrant (delegates sub-nodes to brand-new CGenerators)
         parse:  loud (CParser subclass overriding the error hook),
                 oldtok (stock CParser with a custom lexer class whose tokens
                 carry no file name)
       kind 'gen'     key in GEN_SRC, granularity 'visit' | 'call'
       kind 'visitor' key in VIS_SRC, granularity 'call'
       kind 'leaky-parse': harness-made interference (positive control)"""

    def __init__(self, name, *tasks):
        self.name = name
        parts = [t.split(":") for t in tasks]
        self.tasks = [tuple(x[:3]) for x in parts]
        # optional 4th field: which CLASS the instance is made of
        self.cls = [(x[3] if len(x) > 3 else "") for x in parts]
        self.ntasks = len(self.tasks)
        self.kinds = [{"parse": "parser", "gen": "generator", "visitor": "visitor",
                       "leaky-parse": "control", "ctor": "constructor"}[t[0]] for t in self.tasks]
        # every task gets its own input object, built when its job is first
        # made (so that running one task alone executes nothing else)
        self.asts = [None] * self.ntasks

    def _ast(self, n):
        from pycparser.c_parser import CParser

        if self.asts[n] is None:
            kind, key, gran = self.tasks[n]
            src = GEN_SRC[key] if kind == "gen" else VIS_SRC[key]
            self.asts[n] = CParser().parse(src, key + ".c")
        return self.asts[n]

    def jobs(self):
        return [self.job(n) for n in range(self.ntasks)]

    def job(self, n):
        pristine.touch("C13 task")
        return self._job(n)

    def reference_job(self, n):
        """The re-entrant generator subclass must print what a plain CGenerator
        prints (it only delegates sub-nodes to brand-new instances): its
        reference is the plain class on the same AST, not itself - a defect of
        nested same-thread use would be in its own solo run as well."""
        if self.tasks[n][0] == "gen" and self.cls[n] == "reentrant":
            saved = self.cls[n]
            self.cls[n] = ""
            try:
                return self.job(n)
            finally:
                self.cls[n] = saved
        return None

    def _job(self, n):
        from pycparser import c_ast
        from pycparser.c_parser import CParser
        from pycparser.c_generator import CGenerator
        from pycparser.c_lexer import CLexer

        kind, key, gran = self.tasks[n]
        ast = self._ast(n) if kind in ("gen", "visitor") else None
        if kind == "parse" and gran == "token" and self.cls[n] == "oldtok":
            # a custom lexer class written against the older Token: its tokens
            # leave the optional `filename` field at None
            fn, text = PROGS[key]
            from pycparser.c_lexer import Token

            def job(point):
                base = sched.token_lexer(point)

                class OldTokenLexer(base):
                    def token(self):
                        t = super().token()
                        return None if t is None else Token(t.type, t.value, t.lineno, t.column)

                return _canon_raw(_raw_parse(lambda: CParser(lexer=OldTokenLexer), text, fn))

        elif kind == "parse" and gran == "token":
            fn, text = PROGS[key]
            PC = parser_class(self.cls[n])

            def job(point):
                return _canon_raw(_raw_parse(lambda: PC(lexer=sched.token_lexer(point)), text, fn))

        elif kind == "parse" and gran == "split":
            fn, text = PROGS[key]

            def job(point):
                p = CParser(lexer=sched.token_lexer(point))
                point("constructed")
                return _canon_raw(_raw_parse(lambda: p, text, fn))

        elif kind == "parse" and gran == "sparse":
            fn, text = PROGS[key]

            def job(point):
                return _canon_raw(_raw_parse(lambda: CParser(lexer=sched.token_lexer(point, 6, 64)), text, fn))

        elif kind == "ctor":
            def job(point):
                point("before-constructor")
                try:
                    CParser(lexer=sched.token_lexer(point))
                except Exception as e:  # noqa
                    return ("exc", type(e).__name__, str(e))
                point("after-constructor")
                return ("text", "constructed")

        elif kind == "parse":
            fn, text = PROGS[key]

            def job(point):
                return _canon_raw(sched.with_call_points(lambda: _raw_parse(CParser, text, fn), point))

        elif kind == "leaky-parse":
            # positive control: harness lexers that share the *initial* file
            # name through a class attribute (public seams only)
            fn, text = PROGS[key]

            def job(point):
                base = sched.token_lexer(point)

                class LeakyLexer(base):
                    def input(self, t, filename=""):
                        _Shared.filename = filename
                        super().input(t, filename)

                    @property
                    def filename(self):
                        return _Shared.filename

                    def token(self):
                        # the leak must reach coordinates whether the parser
                        # reads the lexer's file name when it builds a node or
                        # the name stamped on the token when it was lexed
                        tok = super().token()
                        if tok is not None and hasattr(tok, "filename"):
                            tok.filename = _Shared.filename
                        return tok

                return _canon_raw(_raw_parse(lambda: CParser(lexer=LeakyLexer), text, fn))

        elif kind == "gen":
            only = ("visit",) if gran == "visit" else None

            rp = GEN_RP.get(key, False)
            G = generator_class(self.cls[n])
            mk = (lambda: G()) if self.cls[n] else (lambda: CGenerator(reduce_parentheses=rp))

            def job(point):
                return sched.with_call_points(lambda: O.visit_obs(mk(), ast), point, only)

        elif kind == "visitor":
            if key == "v1":
                class V(c_ast.NodeVisitor):
                    def __init__(self):
                        self.out = []

                    def visit_ID(self, node):
                        self.out.append(("id", node.name))

                    def visit_Constant(self, node):
                        self.out.append(("const", node.value))
            else:
                class V(c_ast.NodeVisitor):
                    def __init__(self):
                        self.out = []

                    def visit_Decl(self, node):
                        self.out.append(("decl", node.name))
                        self.generic_visit(node)

                    def visit_BinaryOp(self, node):
                        self.out.append(("binop", node.op))
                        self.generic_visit(node)

                    def visit_ID(self, node):
                        self.out.append(("ID", node.name))

            def job(point):
                def run():
                    v = V()
                    try:
                        v.visit(ast)
                    except Exception as e:  # noqa
                        return ("exc", type(e).__name__, str(e))
                    return ("text", repr(v.out))

                return sched.with_call_points(run, point)

        else:
            raise ValueError(kind)
        return job


class _Shared:
    filename = ""


generator_class = O.generator_class
parser_class = O.parser_class


def scenario(name, *tasks):
    return Scenario(name, *tasks)


def _ref(name, *tasks):
    return ("checks.c13", "scenario", (name,) + tasks)


def plan(tier):
    q = tier == "quick"
    bt = 2 if q else 3      # token / visit granularity
    bc = 1 if q else 2      # call granularity
    P = [
        (_ref("2 parsers A|B @token", "parse:A:token", "parse:B:token"), bt),
        (_ref("2 parsers A|C @token", "parse:A:token", "parse:C:token"), bt),
        (_ref("2 parsers B|C @token", "parse:B:token", "parse:C:token"), bt),
        (_ref("2 parsers A|D(fails) @token", "parse:A:token", "parse:D:token"), bt),
        (_ref("2 parsers E|F (same bare #line / # N) @token", "parse:E:token", "parse:F:token"), bt),
        (_ref("3 parsers A|B|C @token", "parse:A:token", "parse:B:token", "parse:C:token"), bt),
        # pending-token state: a switch can fall between PPPRAGMA and PPPRAGMASTR
        (_ref("2 parsers P1|P2 (pragmas with text) @token", "parse:P1:token", "parse:P2:token"), bt),
        (_ref("3 parsers P1|P2|P3 (pragmas with text) @token", "parse:P1:token", "parse:P2:token", "parse:P3:token"), bt),
        (_ref("2 parsers P1|C (only one has pragmas) @token", "parse:P1:token", "parse:C:token"), bt),
        (_ref("parser P1 | construction of another CParser @token", "parse:P1:token", "ctor::token"), bt),
        (_ref("2 parsers P1|P2, construction and parse() separated @token", "parse:P1:split", "parse:P2:split"), bt),
        # position-keyed state: token-aligned programs with opposite outcomes
        (_ref("2 parsers U1|V1 (aligned: cast / sizeof(type) vs expression) @token", "parse:U1:token", "parse:V1:token"), bt),
        (_ref("2 parsers U2|V2 (aligned: declaration, label, compound literal vs expressions) @token", "parse:U2:token", "parse:V2:token"), bt),
        (_ref("2 parsers U3|V3 (aligned: abstract declarator / prototype vs parameter name / identifier list) @token", "parse:U3:token", "parse:V3:token"), bt),
        # rare branch | common branch
        (_ref("2 parsers R0|R1 (for-declaration + if before '}' | three-deep braces, shadowed typedef) @token", "parse:R0:token", "parse:R1:token"), bt),
        (_ref("2 parsers N0|N1 (typeless declaration in a block | typedef name redeclared) @token", "parse:N0:token", "parse:N1:token"), bt),
        (_ref("2 parsers N2|N1 (typeless declaration in a K&R list, rejected | typedef name redeclared) @token", "parse:N2:token", "parse:N1:token"), bt),
        (_ref("2 parsers S0|S1 (adjacent string literals | a run followed by a lexer error) @token", "parse:S0:token", "parse:S1:token"), bt),
        (_ref("2 parsers M0|M1 (_Atomic, statement expression | K&R enumerators, [*]) @token", "parse:M0:token", "parse:M1:token"), bt),
        # process-wide interpreter state: shallow | deep
        (_ref("2 parsers X(shallow)|Y(640 nested parentheses) @token (Y: first 6 pulls, then every 64th)", "parse:X:token", "parse:Y:sparse"), bt),
        (_ref("3 parsers E|F|G (same directives, G names a file) @token", "parse:E:token", "parse:F:token", "parse:G:token"), bt),
        (_ref("3 parsers D|C|A @token", "parse:D:token", "parse:C:token", "parse:A:token"), bt),
        (_ref("parser A | generator deep @token/visit", "parse:A:token", "gen:deep:visit"), bt),
        (_ref("2 generators deep|flat @visit", "gen:deep:visit", "gen:flat:visit"), bt),
        (_ref("2 generators same source, reduce_parentheses differs @visit", "gen:par0:visit", "gen:par1:visit"), bt),
        # instances of different CLASSES: plain-then-subclass and
        # subclass-then-plain are the two 0-preemption schedules (the first
        # choice is free), taking turns item by item is within the bound
        (_ref("plain CGenerator | subclass overriding visit_ID/Constant/BinaryOp @visit", "gen:mix0:visit", "gen:mix1:visit:deco"), bt),
        (_ref("plain CGenerator | subclass overriding visit() @visit", "gen:mix0:visit", "gen:mix1:visit:ownvisit"), bt),
        (_ref("plain CGenerator | subclass with reduce_parentheses=True @visit", "gen:mix0:visit", "gen:mix1:visit:rpsub"), bt),
        (_ref("3 generator classes: visit_X overrides | visit() override | plain @visit", "gen:mini0:visit:deco", "gen:mini1:visit:ownvisit", "gen:mini2:visit"), bt),
        (_ref("plain CGenerator | re-entrant subclass (nested brand-new generators) @visit", "gen:mix0:visit", "gen:mix1:visit:reentrant"), bt),
        (_ref("re-entrant subclass on nested compounds | plain @visit", "gen:deep:visit:reentrant", "gen:flat:visit"), bt),
        # two lexer CLASSES through lexer=: the stock one and one whose tokens
        # carry no file name, on programs with #line directives
        (_ref("stock lexer A | lexer without Token.filename B @token", "parse:A:token", "parse:B:token:oldtok"), bt),
        (_ref("lexer without Token.filename A | stock lexer B @token", "parse:A:token:oldtok", "parse:B:token"), bt),
        (_ref("stock lexer C | lexer without Token.filename C | stock lexer E @token", "parse:C:token", "parse:C:token:oldtok", "parse:E:token"), bt),
        (_ref("plain CParser D | CParser subclass (error hook) D | plain A @token", "parse:D:token", "parse:D:token:loud", "parse:A:token"), bt),
        (_ref("2 NodeVisitor subclasses @call", "visitor:v1:call", "visitor:v2:call"), bc),
        (_ref("2 parsers e|f (same bare #line) @call", "parse:e:call", "parse:f:call"), bc),
        (_ref("2 parsers a|c @call", "parse:a:call", "parse:c:call"), bc),
        (_ref("2 generators deep|flat @call", "gen:deep:call", "gen:flat:call"), bc),
        # the smallest pair: ALL interleavings (C(15,6) = 5005)
        (_ref("2 parsers a|c @token, all interleavings", "parse:a:token", "parse:c:token"), None),
    ]
    if not q:
        # C(18,9) = 48620
        P.append((_ref("2 parsers a|b @token, all interleavings", "parse:a:token", "parse:b:token"), None))
        P.append((_ref("2 parsers e|f (same bare #line) @token, all interleavings", "parse:e:token", "parse:f:token"), None))
    return P


CONTROL = _ref("control: 2 parsers with a harness lexer sharing the file name", "leaky-parse:LA:token", "leaky-parse:LB:token")


def run(tier):
    R = core.Run(PID, tier, "model_checking")
    # order matters: the reserve for pristine processes and the pmap workers
    # are forked before this process executes pycparser code or starts threads
    pristine.start_reserve()
    core.pool()
    samples = []
    P = plan(tier)

    # every task's solo result comes from its own pristine process (twice)
    tables, unstable = sched.solo_baseline([(ref, len(ref[2]) - 1) for ref, _ in P] + [(CONTROL, 2)])
    R.set("solo_baselines_from_pristine_processes", sum(len(t) for t in tables.values()))
    for ref, t, r1, r2 in unstable:
        R.fail(f"interference:solo-unstable:{O.obs_sig(r1, r2)}",
               {"scenario": list(ref), "unstable": True, "task": t},
               f"{ref[2][0]} task {t} run alone in two pristine processes: {O.obs_detail(r1, r2)}")

    if not sched.selfcheck():
        R.fail("harness:schedule-explorer-selfcheck", {"part": "selfcheck"},
               "toy tasks: wrong number of schedules, planted lost update not found, "
               "replay not deterministic or a wrong prefix not refused")

    # positive control: interference planted in harness code must be found
    # with one preemption and must be invisible with none
    sched.install_solo(CONTROL, tables[CONTROL])
    c0 = sched.explore_subtree(CONTROL, 0, {}, 0)[0]
    c1 = sched.explore_subtree(CONTROL, 1, {}, 0)[0]
    R.set("control", {"schedules_bound0": c0.schedules, "fails_bound0": len(c0.fails),
                      "schedules_bound1": c1.schedules,
                      "signatures_bound1": sorted({f[0] for f in c1.fails})})
    if c0.fails or not any("coord.file" in f[0] or "message" in f[0] for f in c1.fails):
        R.fail("harness:control-not-detected", {"part": "control"},
               f"shared-file-name lexers: bound 0 fails={len(c0.fails)} bound 1 fails={[f[0] for f in c1.fails][:3]}")

    states = transitions = schedules = points = 0
    per = {}
    replay_ok = 0
    max_bound_token = max_bound_call = 0
    all_fails = []
    for ref, bound in P:
        scn = sched.install_solo(ref, tables[ref])
        sol = sched.solo(scn)
        ok, info = sched.replay_twice(ref)
        if ok:
            replay_ok += 1
        else:
            R.fail("harness:replay-not-deterministic", {"scenario": list(ref), **info}, scn.name)
        import time
        t0 = time.time()
        s = sched.explore(ref, bound, tables[ref])
        wall = time.time() - t0
        all_fails += s.fails
        distinct = [len(o) for o in s.outcomes]
        for t, o in enumerate(s.outcomes):
            if len(o) != 1 and not s.fails:
                R.fail("harness:outcomes-vs-fails", {"scenario": list(ref)}, "several outcomes but no failure recorded")
        per[scn.name] = {
            "tasks": ["%s:%s" % (k, ("ok" if o[0][0] in ("ok", "text") else o[0][1])) for k, o in zip(scn.kinds, sol)],
            "points_per_task_alone": [o[1] for o in sol],
            "preemption_bound_completed": "all interleavings" if bound is None else bound,
            "schedules": s.schedules,
            "decisions": s.decisions,
            "scheduling_points": s.points,
            "context_switches": s.switches,
            "schedules_by_preemptions": {str(k): v for k, v in sorted(s.by_preemptions.items())},
            "distinct_configurations": len(s.configs),
            "distinct_outcomes_per_task": distinct,
            "rounds": s.rounds,
            "wall_s": round(wall, 1),
        }
        states += len(s.configs)
        transitions += s.decisions
        schedules += s.schedules
        points += s.points
        # vacuity: every task really had points, schedules really interleaved
        if min(o[1] for o in sol) < 2 or s.interleaved < 1 or s.schedules < 10:
            R.fail("harness:scenario-vacuous", {"scenario": list(ref)},
                   f"points alone={[o[1] for o in sol]} interleaved schedules={s.interleaved}")
        if bound is None:
            # all interleavings of two tasks with m and n blocks: C(m+n, m)
            import math
            m, n = sol[0][1] + 1, sol[1][1] + 1
            if scn.ntasks == 2 and not s.fails and s.schedules != math.comb(m + n, m):
                R.fail("harness:interleaving-count", {"scenario": list(ref)},
                       f"{s.schedules} schedules, expected C({m+n},{m})={math.comb(m+n, m)}")
        elif "@call" in scn.name:
            max_bound_call = max(max_bound_call, s.max_preemptions)
        else:
            max_bound_token = max(max_bound_token, s.max_preemptions)
        samples.append({"scenario": scn.name, "schedules": s.schedules,
                        "bound": "all" if bound is None else bound})

    # smallest case per signature first; each gets a self-contained
    # reproduction in a pristine process
    all_fails.sort(key=lambda f: (f[1]["preemptions"], len(f[1]["schedule"])))
    R.fail_many(sched.confirm(all_fails, {r: tables[r] for r, _ in P}))
    pristine.stop_reserve()
    nscen = len(P)
    R.set("per_scenario", per)
    R.set("scenarios", nscen)
    R.set("states", states)
    R.set("transitions", transitions)
    R.set("traces_validated_against_impl", schedules)
    R.set("evaluations", schedules + c0.schedules + c1.schedules)
    R.set("scheduling_points", points)
    R.set("distinct_nontrivial", sum(v["schedules"] - v["schedules_by_preemptions"].get("0", 0) for v in per.values()))
    R.set("distinct_outcomes", max(max(v["distinct_outcomes_per_task"]) for v in per.values()))
    R.set("replay_twice_identical", f"{replay_ok}/{nscen}")
    R.set("bounds", {"preemptions@token/visit": 2 if tier == "quick" else 3,
                     "preemptions@call": 1 if tier == "quick" else 2,
                     "all_interleavings": [k for k, v in per.items() if v["preemption_bound_completed"] == "all interleavings"],
                     "max_preemptions_seen@token": max_bound_token, "max_preemptions_seen@call": max_bound_call})
    R.assumptions += [
        "cooperative scheduling: a task can lose the processor only at a scheduling point (token pull; "
        "in call mode every call of a function defined in a pycparser module); bytecode-level preemption "
        "inside one Python call and free-running OS threads are not explored",
        "each task works on its own input object",
    ]
    return R.finish(
        samples,
        "every schedule with <= bound preemptions (all interleavings where stated) of the listed task "
        "sets, executed on the real code in real threads under a baton scheduler; every task's result "
        "(canon AST with coords / generated text / visitor log / exception type+message) must equal its "
        "result when run alone. states = distinct (running task, per-task points reached) configurations "
        "at scheduling decisions, transitions = scheduling decisions, traces = complete schedules. "
        "non-trivial = schedules with at least one preemption (some task ran between two points of another)",
    )


def replay(rep):
    pristine.start_reserve()
    try:
        return _replay(rep)
    finally:
        pristine.stop_reserve()


def _replay(rep):
    c = rep["case"]
    if "schedule" not in c and not c.get("unstable"):
        print("harness-level failure; re-run the check")
        return 1
    ref = (c["scenario"][0], c["scenario"][1], tuple(c["scenario"][2]))
    pre = [((p[0][0], p[0][1], tuple(p[0][2])), p[1]) for p in c.get("prelude", [])]
    refs = [ref] + [r for r, _ in pre if r != ref]
    tables, unstable = sched.solo_baseline([(r, len(r[2]) - 1) for r in refs])
    if c.get("unstable"):
        for r, t, r1, r2 in unstable:
            print(f"{r[2][0]} task {t}: two pristine processes disagree on the solo run: {O.obs_detail(r1, r2)}")
        return 1 if unstable else 0
    for r, t in pre:
        print(f"first, alone: task {t} of {r[2][0]!r}")
        sched.scheduler().execute([sched.install_solo(r, tables[r]).job(t)])
    scn = sched.install_solo(ref, tables[ref])
    sol = sched.solo(scn)
    dev = {int(i): int(t) for i, t in c["schedule"]}
    print("scenario:", scn.name)
    try:
        trace, results = sched.scheduler().execute(scn.jobs(), dev)
    except sched.Divergence as e:
        print("the recorded schedule does not fit this execution:", e)
        return 1
    print("schedule (decision index -> task, otherwise keep running):", sorted(dev.items()))
    order = []
    for d in trace:
        if not order or order[-1][0] != d[5]:
            order.append([d[5], 0])
        order[-1][1] += 1
    print("run order (task x blocks):", " ".join(f"{t}x{n}" for t, n in order))
    bad = 0
    for t, r in enumerate(results):
        same = r == sol[t][0]
        print(f"task {t} ({scn.tasks[t]}): {'same as alone in a pristine process' if same else 'DIFFERS: ' + O.obs_detail(sol[t][0], r)}")
        bad += not same
    if not bad and not c.get("self_contained", True):
        print("not reproduced in a fresh process: the recorded failure depended on what the exploring process had run before")
    return 1 if bad else 0

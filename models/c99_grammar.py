"""Reference grammar for C01: ISO/IEC 9899:1999 Annex A.2.1-A.2.4 as data, the
C11 productions pycparser documents, and the restrictions of DESIGN 4.4.

Written from the standard's text, not from pycparser's BNF comments.

Notation of a right-hand side: a string of blank-separated symbols.
  * a symbol that is a key of the final production dict is a nonterminal;
  * anything else is a terminal *symbol* (see TERMINALS: spelling of the class
    representative and the other members of the class);
  * `X?` is the standard's `X_opt`; mc.gramdp expands it mechanically.

Annex A writes `identifier` in every name space.  The transcription annotates
the occurrence with its role because C's typedef-name rule (6.7.7) depends on
it: `identifier` (ordinary name space: objects, functions, parameters,
enumeration constants), `identifier/tag`, `identifier/member`,
`identifier/label`, `identifier/typedef-declared` (the name a typedef
declaration introduces).  All are spelled `a` except the last (fresh names
U1, V1, W1, ... numbered per sentence by spell()).

build() returns the production dict that is enumerated:

    ANNEX_A  (+)  C11  ->  COLLAPSE (ten binary levels -> one; same language)
                       ->  RESTRICT (DESIGN 4.4 (i)-(iv) and three more, each
                                     commented where it is applied)
"""
from __future__ import annotations

# ---------------------------------------------------------------------------
# A.2.1 Expressions  (C99, verbatim; 6.5.x numbers in comments)
# ---------------------------------------------------------------------------
ANNEX_A = {
    # 6.5.1
    "primary-expression": [
        "identifier",
        "constant",
        "string-literal",
        "( expression )",
    ],
    # 6.5.2
    "postfix-expression": [
        "primary-expression",
        "postfix-expression [ expression ]",
        "postfix-expression ( argument-expression-list? )",
        "postfix-expression . identifier/member",
        "postfix-expression -> identifier/member",
        "postfix-expression ++",
        "postfix-expression --",
        "( type-name ) { initializer-list }",
        "( type-name ) { initializer-list , }",
    ],
    "argument-expression-list": [
        "assignment-expression",
        "argument-expression-list , assignment-expression",
    ],
    # 6.5.3
    "unary-expression": [
        "postfix-expression",
        "++ unary-expression",
        "-- unary-expression",
        "unary-operator cast-expression",
        "sizeof unary-expression",
        "sizeof ( type-name )",
    ],
    "unary-operator": ["&", "*", "+", "-", "~", "!"],
    # 6.5.4
    "cast-expression": [
        "unary-expression",
        "( type-name ) cast-expression",
    ],
    # 6.5.5 - 6.5.14: the ten binary levels
    "multiplicative-expression": [
        "cast-expression",
        "multiplicative-expression * cast-expression",
        "multiplicative-expression / cast-expression",
        "multiplicative-expression % cast-expression",
    ],
    "additive-expression": [
        "multiplicative-expression",
        "additive-expression + multiplicative-expression",
        "additive-expression - multiplicative-expression",
    ],
    "shift-expression": [
        "additive-expression",
        "shift-expression << additive-expression",
        "shift-expression >> additive-expression",
    ],
    "relational-expression": [
        "shift-expression",
        "relational-expression < shift-expression",
        "relational-expression > shift-expression",
        "relational-expression <= shift-expression",
        "relational-expression >= shift-expression",
    ],
    "equality-expression": [
        "relational-expression",
        "equality-expression == relational-expression",
        "equality-expression != relational-expression",
    ],
    "AND-expression": [
        "equality-expression",
        "AND-expression & equality-expression",
    ],
    "exclusive-OR-expression": [
        "AND-expression",
        "exclusive-OR-expression ^ AND-expression",
    ],
    "inclusive-OR-expression": [
        "exclusive-OR-expression",
        "inclusive-OR-expression | exclusive-OR-expression",
    ],
    "logical-AND-expression": [
        "inclusive-OR-expression",
        "logical-AND-expression && inclusive-OR-expression",
    ],
    "logical-OR-expression": [
        "logical-AND-expression",
        "logical-OR-expression || logical-AND-expression",
    ],
    # 6.5.15
    "conditional-expression": [
        "logical-OR-expression",
        "logical-OR-expression ? expression : conditional-expression",
    ],
    # 6.5.16
    "assignment-expression": [
        "conditional-expression",
        "unary-expression assignment-operator assignment-expression",
    ],
    "assignment-operator": [
        "=", "*=", "/=", "%=", "+=", "-=", "<<=", ">>=", "&=", "^=", "|=",
    ],
    # 6.5.17
    "expression": [
        "assignment-expression",
        "expression , assignment-expression",
    ],
    # 6.6
    "constant-expression": ["conditional-expression"],

    # -----------------------------------------------------------------------
    # A.2.2 Declarations
    # -----------------------------------------------------------------------
    # 6.7
    "declaration": [
        "declaration-specifiers init-declarator-list? ;",
    ],
    "declaration-specifiers": [
        "storage-class-specifier declaration-specifiers?",
        "type-specifier declaration-specifiers?",
        "type-qualifier declaration-specifiers?",
        "function-specifier declaration-specifiers?",
    ],
    "init-declarator-list": [
        "init-declarator",
        "init-declarator-list , init-declarator",
    ],
    "init-declarator": [
        "declarator",
        "declarator = initializer",
    ],
    # 6.7.1
    "storage-class-specifier": ["typedef", "extern", "static", "auto", "register"],
    # 6.7.2  (_Imaginary is optional in C99, absent from gcc and pycparser)
    "type-specifier": [
        "void", "char", "short", "int", "long", "float", "double", "signed",
        "unsigned", "_Bool", "_Complex",
        "struct-or-union-specifier",
        "enum-specifier",
        "typedef-name",
    ],
    # 6.7.2.1
    "struct-or-union-specifier": [
        "struct-or-union identifier/tag? { struct-declaration-list }",
        "struct-or-union identifier/tag",
    ],
    "struct-or-union": ["struct", "union"],
    "struct-declaration-list": [
        "struct-declaration",
        "struct-declaration-list struct-declaration",
    ],
    "struct-declaration": [
        "specifier-qualifier-list struct-declarator-list ;",
    ],
    "specifier-qualifier-list": [
        "type-specifier specifier-qualifier-list?",
        "type-qualifier specifier-qualifier-list?",
    ],
    "struct-declarator-list": [
        "struct-declarator",
        "struct-declarator-list , struct-declarator",
    ],
    "struct-declarator": [
        "declarator",
        "declarator? : constant-expression",
    ],
    # 6.7.2.2
    "enum-specifier": [
        "enum identifier/tag? { enumerator-list }",
        "enum identifier/tag? { enumerator-list , }",
        "enum identifier/tag",
    ],
    "enumerator-list": [
        "enumerator",
        "enumerator-list , enumerator",
    ],
    "enumerator": [
        "enumeration-constant",
        "enumeration-constant = constant-expression",
    ],
    "enumeration-constant": ["identifier"],  # A.1.5
    # 6.7.3
    "type-qualifier": ["const", "restrict", "volatile"],
    # 6.7.4
    "function-specifier": ["inline"],
    # 6.7.5
    "declarator": ["pointer? direct-declarator"],
    "direct-declarator": [
        "identifier",
        "( declarator )",
        "direct-declarator [ type-qualifier-list? assignment-expression? ]",
        "direct-declarator [ static type-qualifier-list? assignment-expression ]",
        "direct-declarator [ type-qualifier-list static assignment-expression ]",
        "direct-declarator [ type-qualifier-list? * ]",
        "direct-declarator ( parameter-type-list )",
        "direct-declarator ( identifier-list? )",
    ],
    "pointer": [
        "* type-qualifier-list?",
        "* type-qualifier-list? pointer",
    ],
    "type-qualifier-list": [
        "type-qualifier",
        "type-qualifier-list type-qualifier",
    ],
    "parameter-type-list": [
        "parameter-list",
        "parameter-list , ...",
    ],
    "parameter-list": [
        "parameter-declaration",
        "parameter-list , parameter-declaration",
    ],
    "parameter-declaration": [
        "declaration-specifiers declarator",
        "declaration-specifiers abstract-declarator?",
    ],
    "identifier-list": [
        "identifier",
        "identifier-list , identifier",
    ],
    # 6.7.6
    "type-name": ["specifier-qualifier-list abstract-declarator?"],
    "abstract-declarator": [
        "pointer",
        "pointer? direct-abstract-declarator",
    ],
    # C99 TC3 / C11 text (qualifiers and static inside abstract brackets)
    "direct-abstract-declarator": [
        "( abstract-declarator )",
        "direct-abstract-declarator? [ type-qualifier-list? assignment-expression? ]",
        "direct-abstract-declarator? [ static type-qualifier-list? assignment-expression ]",
        "direct-abstract-declarator? [ type-qualifier-list static assignment-expression ]",
        "direct-abstract-declarator? [ * ]",
        "direct-abstract-declarator? ( parameter-type-list? )",
    ],
    # 6.7.7
    "typedef-name": ["identifier"],
    # 6.7.8
    "initializer": [
        "assignment-expression",
        "{ initializer-list }",
        "{ initializer-list , }",
    ],
    "initializer-list": [
        "designation? initializer",
        "initializer-list , designation? initializer",
    ],
    "designation": ["designator-list ="],
    "designator-list": [
        "designator",
        "designator-list designator",
    ],
    "designator": [
        "[ constant-expression ]",
        ". identifier/member",
    ],

    # -----------------------------------------------------------------------
    # A.2.3 Statements
    # -----------------------------------------------------------------------
    "statement": [
        "labeled-statement",
        "compound-statement",
        "expression-statement",
        "selection-statement",
        "iteration-statement",
        "jump-statement",
    ],
    "labeled-statement": [
        "identifier/label : statement",
        "case constant-expression : statement",
        "default : statement",
    ],
    "compound-statement": ["{ block-item-list? }"],
    "block-item-list": [
        "block-item",
        "block-item-list block-item",
    ],
    "block-item": ["declaration", "statement"],
    "expression-statement": ["expression? ;"],
    "selection-statement": [
        "if ( expression ) statement",
        "if ( expression ) statement else statement",
        "switch ( expression ) statement",
    ],
    "iteration-statement": [
        "while ( expression ) statement",
        "do statement while ( expression ) ;",
        "for ( expression? ; expression? ; expression? ) statement",
        "for ( declaration expression? ; expression? ) statement",
    ],
    "jump-statement": [
        "goto identifier/label ;",
        "continue ;",
        "break ;",
        "return expression? ;",
    ],

    # -----------------------------------------------------------------------
    # A.2.4 External definitions
    # -----------------------------------------------------------------------
    "translation-unit": [
        "external-declaration",
        "translation-unit external-declaration",
    ],
    "external-declaration": ["function-definition", "declaration"],
    "function-definition": [
        "declaration-specifiers declarator declaration-list? compound-statement",
    ],
    "declaration-list": [
        "declaration",
        "declaration-list declaration",
    ],
}

# ---------------------------------------------------------------------------
# C11 productions that pycparser documents (ISO/IEC 9899:2011 6.x), as
# *additional alternatives* of the nonterminals above or new nonterminals.
# ---------------------------------------------------------------------------
C11 = {
    "unary-expression": ["_Alignof ( type-name )"],                  # 6.5.3
    "declaration": ["static_assert-declaration"],                    # 6.7
    "declaration-specifiers": ["alignment-specifier declaration-specifiers?"],
    "storage-class-specifier": ["_Thread_local"],                    # 6.7.1
    "type-specifier": ["atomic-type-specifier"],                     # 6.7.2
    "struct-declaration": [                                          # 6.7.2.1
        "specifier-qualifier-list struct-declarator-list? ;",  # anonymous members
        "static_assert-declaration",
    ],
    # DR 444 (applied by every C11 compiler): alignment specifier on members
    "specifier-qualifier-list": ["alignment-specifier specifier-qualifier-list?"],
    "atomic-type-specifier": ["_Atomic ( type-name )"],              # 6.7.2.4
    "type-qualifier": ["_Atomic"],                                   # 6.7.3
    "function-specifier": ["_Noreturn"],                             # 6.7.4
    "alignment-specifier": [                                         # 6.7.5
        "_Alignas ( type-name )",
        "_Alignas ( constant-expression )",
    ],
    "static_assert-declaration": [                                   # 6.7.10
        "_Static_assert ( constant-expression , string-literal ) ;",
    ],
}

TEN_LEVELS = [
    "multiplicative-expression", "additive-expression", "shift-expression",
    "relational-expression", "equality-expression", "AND-expression",
    "exclusive-OR-expression", "inclusive-OR-expression",
    "logical-AND-expression", "logical-OR-expression",
]

# ---------------------------------------------------------------------------
# Terminal symbols: spelling of the class representative, other members.
# A guard names a condition checked by substitutions() (see there).
# ---------------------------------------------------------------------------
BINARY_OPERATORS = ["*", "/", "%", "+", "-", "<<", ">>", "<", ">", "<=", ">=",
                    "==", "!=", "&", "^", "|", "&&", "||"]
UNARY_OPERATORS = ["*", "&", "+", "-", "~", "!"]
ASSIGNMENT_OPERATORS = ["=", "*=", "/=", "%=", "+=", "-=", "<<=", ">>=", "&=",
                        "^=", "|="]
# Other members of the lexical classes, written from C99 6.4.2 / 6.4.4 / 6.4.5
# (and C11 6.4.4.4 / 6.4.5 for u U u8), not from pycparser's regular expressions.
# identifiers (6.4.2.1): a lone underscore, digits after the first character,
# keyword look-alikes (a keyword plus one more character, a keyword in another
# case), the literal-prefix letters as plain names, `$` (6.4.2.1 "other
# implementation-defined characters"; documented pycparser extension, gcc too)
OTHER_IDENTIFIERS = ["b", "_", "_x1", "$d", "intx", "_Boolx", "sizeofa", "do1", "If",
                     "L", "u", "U", "u8"]

# integer-suffix (6.4.4.1): unsigned-suffix long-suffix? | unsigned-suffix
# long-long-suffix | long-suffix unsigned-suffix? | long-long-suffix
# unsigned-suffix?, with u|U, l|L, ll|LL
_U, _L, _LL = ["u", "U"], ["l", "L"], ["ll", "LL"]
INTEGER_SUFFIXES = (
    _U + _L + _LL
    + [a + b for a in _U for b in _L + _LL]
    + [b + a for a in _U for b in _L + _LL]
)
OTHER_CONSTANTS = (
    # 6.4.4.1 integer constants: decimal, octal (incl. 0 and 00), hexadecimal
    ["0", "00", "07", "0777", "10", "0x0", "0x1F", "0XaB", "0xabcdefABCDEF"]
    + ["1" + sfx for sfx in INTEGER_SUFFIXES]
    + ["0x1Full", "07LLu", "0uLL"]
    # 6.4.4.2 decimal floating constants: fractional-constant exponent-part?
    # floating-suffix? | digit-sequence exponent-part floating-suffix?
    + ["1.5", "1.", ".5", "0.", "0.0", "0e0", "1e3", "1E+3", "1.e+3", "1.5e-3", ".5E3",
       "1.5f", "1.5F", "1.5l", "1.5L", "1e3f", "1.L",
       # the digit-sequence of a floating constant is decimal whatever its first
       # digit: a leading 0 followed by 8 or 9 is a valid floating constant
       "08.5", "09e1", "0009.L", "0128.25f", "019.", "08e0", "00.5", "07.", "09.e-1F"]
    # hexadecimal floating constants (binary-exponent-part is mandatory)
    + ["0x1p0", "0x1.8p3", "0x1p-3", "0X.8P+3f", "0x.8p-1f", "0x1.p3L", "0X1.P+1L"]
    # 6.4.4.4 character constants: plain, every simple escape, octal (1-3 digits)
    # and hexadecimal escapes, multi-character, L (C99) and u U (C11) prefixes
    + r"""'c' '"' '\'' '\\' '\?' '\a' '\b' '\f' '\n' '\r' '\t' '\v' '\0' '\7' '\101'
          '\x41' '\xfF' 'ab' 'abcd' L'c' L'\n' L'\x41' u'a' U'a' u'\n' U'\0'""".split()
)
# 6.4.5 string literals: empty, every escape kind, a quote character of the
# other kind, question marks, comment openers and punctuation inside, prefixes
# L (C99) and u8 u U (C11)
OTHER_STRINGS = r"""
    "" "\a\b\f\n\r\t\v" "\\" "\'" "\"" "\?" "'" "\0" "\101" "\x41" "a\x41\101b" "??"
    "/*" "//" "%d;{}" L"s" u8"s" u"s" U"s" L"" u8"" L"\n" U"\x41"
""".split()

TERMINALS = {
    # symbol: (representative spelling, [other members])
    "identifier": ("a", OTHER_IDENTIFIERS),
    # tags and members live in their own name spaces: a typedef name is a
    # legal spelling there (6.2.3)
    "identifier/tag": ("a", OTHER_IDENTIFIERS + ["T"]),
    "identifier/member": ("a", OTHER_IDENTIFIERS + ["T"]),
    "identifier/label": ("a", OTHER_IDENTIFIERS),
    "identifier/typedef-declared": ("U1", []),
    "typedef-name/T": ("T", []),
    "constant": ("1", OTHER_CONSTANTS),
    "string": ('"s"', OTHER_STRINGS),
    "BINOP": ("*", BINARY_OPERATORS[1:]),
    "UNOP": ("*", UNARY_OPERATORS[1:]),
    "ASSIGNOP": ("=", ASSIGNMENT_OPERATORS[1:]),
    "INCDEC": ("++", ["--"]),
    "MEMOP": (".", ["->"]),
    "SU": ("struct", ["union"]),
    "SE": ("static", ["extern"]),
    "AR": ("register", ["auto"]),
    # _Atomic as a qualifier is a member of this class; 6.7.2.4p4: directly
    # before '(' the keyword is the specifier, so that substitution is guarded
    "QUAL": ("const", ["volatile", "restrict", "_Atomic"]),
    "FSPEC": ("inline", ["_Noreturn"]),
    # k-th simple type keyword of one specifier list: the chain
    # unsigned / long / long / int (every prefix is a 6.7.2p2 multiset);
    # substitutions() swaps in every other multiset of the same size
    "TYPEKW1": ("unsigned", []),
    "TYPEKW2": ("long", []),
    "TYPEKW3": ("long", []),
    "TYPEKW4": ("int", []),
}

# C99 6.7.2p2, the multisets made only of keywords (one line of the standard
# per group; each line lists alternatives that name the same type)
C99_6_7_2p2 = [
    ["void"],
    ["char"],
    ["signed char"],
    ["unsigned char"],
    ["short", "signed short", "short int", "signed short int"],
    ["unsigned short", "unsigned short int"],
    ["int", "signed", "signed int"],
    ["unsigned", "unsigned int"],
    ["long", "signed long", "long int", "signed long int"],
    ["unsigned long", "unsigned long int"],
    ["long long", "signed long long", "long long int", "signed long long int"],
    ["unsigned long long", "unsigned long long int"],
    ["float"],
    ["double"],
    ["long double"],
    ["_Bool"],
    ["float _Complex"],
    ["double _Complex"],
    ["long double _Complex"],
]


def keyword_multisets():
    """size -> sorted list of all orderings (tuples) of the 6.7.2p2 multisets."""
    import itertools

    out = {}
    for line in C99_6_7_2p2:
        for alt in line:
            ws = alt.split()
            for p in set(itertools.permutations(ws)):
                out.setdefault(len(ws), set()).add(p)
    return {k: sorted(v) for k, v in out.items()}


# ---------------------------------------------------------------------------
# COLLAPSE: only the language matters for acceptance
# ---------------------------------------------------------------------------
COLLAPSED = {
    "binary-expression": [
        "cast-expression",
        "binary-expression BINOP cast-expression",
    ],
    "conditional-expression": [
        "binary-expression",
        "binary-expression ? expression : conditional-expression",
    ],
}

# ---------------------------------------------------------------------------
# RESTRICT: productions that replace the merged ANNEX_A + C11 ones.
# ---------------------------------------------------------------------------
RESTRICTED = {
    # terminal classes instead of one production per operator / keyword
    "postfix-expression": [
        "primary-expression",
        "postfix-expression [ expression ]",
        "postfix-expression ( argument-expression-list? )",
        "postfix-expression MEMOP identifier/member",
        "postfix-expression INCDEC",
        "( type-name ) { initializer-list }",
        "( type-name ) { initializer-list , }",
    ],
    "unary-expression": [
        "postfix-expression",
        "INCDEC unary-expression",
        "UNOP cast-expression",
        "sizeof unary-expression",
        "sizeof ( type-name )",
        "_Alignof ( type-name )",
    ],
    "assignment-expression": [
        "conditional-expression",
        "unary-expression ASSIGNOP assignment-expression",
    ],
    # translation phase 6 (5.1.1.2): adjacent string literal tokens are one
    # string-literal of the phase-7 grammar
    "string-literal": ["string", "string-literal string"],
    # (iii) static typedef-name rule: T is the only typedef name
    "typedef-name": ["typedef-name/T"],
    "struct-or-union": ["SU"],
    "type-qualifier": ["QUAL"],
    # (i)(ii)(iv): the specifier lists are generated by _specifier_lists();
    # a declaration is one of
    #   - specifiers without typedef + declarators named `a`
    #   - (iv) specifiers whose type specifier is struct/union/enum, alone
    #   - (iii) specifiers with typedef + declarators with fresh names,
    #     no initializer (6.7.8: a typedef declares no object)
    "ordinary-declaration": [
        "decl-specifiers<obj> init-declarator-list ;",
        "decl-specifiers<sue> ;",
        "decl-specifiers<td> td-declarator-list ;",
    ],
    "declaration": [
        "ordinary-declaration",
        "static_assert-declaration",
    ],
    "td-declarator-list": [
        "td-declarator",
        "td-declarator-list , td-declarator",
    ],
    # members: (iv') without declarators only the C11 anonymous struct/union
    "struct-declaration": [
        "member-specifiers<obj> struct-declarator-list ;",
        "member-specifiers<anon> ;",
        "static_assert-declaration",
    ],
    "anonymous-struct-or-union": ["struct-or-union { struct-declaration-list }"],
    # 6.7.6 / C11 6.7.5p2: no alignment specifier in a type name
    "type-name": ["tname-specifiers<obj> abstract-declarator?"],
    # 6.7.5.3p2: register is the only storage class of a parameter; function
    # and alignment specifiers do not apply to parameters
    "parameter-declaration": [
        "param-specifiers<obj> declarator",
        "param-specifiers<obj> abstract-declarator?",
    ],
    # 6.7.2.4p3: the type name of an atomic type specifier is not an array,
    # function, atomic or qualified type: unqualified non-atomic specifiers,
    # optionally a pointer chain whose last (outermost) star is unqualified
    "atomic-type-specifier": ["_Atomic ( atomic-specifiers<obj> atomic-pointer? )"],
    "atomic-pointer": ["*", "* type-qualifier-list? atomic-pointer"],
    # (v) 6.9.1p2: the declarator of a function definition is a function
    # declarator (Annex A alone also derives `int a { }`); 6.9.1p4: storage
    # class extern/static only; 6.9.1p6: the declaration list declares
    # parameters (no _Static_assert there)
    "function-definition": [
        "fndef-specifiers<obj> function-declarator declaration-list? compound-statement",
    ],
    "function-declarator": ["pointer? direct-function-declarator"],
    "direct-function-declarator": [
        "identifier ( parameter-type-list )",
        "identifier ( identifier-list? )",
        "( function-declarator )",
    ],
    "declaration-list": [
        "ordinary-declaration",
        "declaration-list ordinary-declaration",
    ],
}
REMOVED = [
    "declaration-specifiers", "specifier-qualifier-list", "type-specifier",
    "storage-class-specifier", "function-specifier", "unary-operator",
    "assignment-operator",
]


def _specifier_lists():
    """(i) type specifiers of one list form a 6.7.2p2 multiset, (ii) at most
    one storage class (or _Thread_local with static/extern), per kind of list.

    A list is derived right-recursively by nonterminals
        <kind>-specifiers<goal|sc|ts>
    where sc is the storage-class state, ts the type-specifier state and goal
    what the complete list must be:
        obj   no typedef, any complete type specifier
        td    with typedef
        sue   type specifier is a struct/union/enum specifier (for (iv))
        anon  type specifier is an anonymous struct/union (members only)
    """
    kinds = {
        # kind: (storage items, other repeatable items, goals)
        "decl": (["typedef", "SE", "AR", "_Thread_local"],
                 ["QUAL", "FSPEC", "alignment-specifier"], ["obj", "td", "sue"]),
        "fndef": (["SE"], ["QUAL", "FSPEC"], ["obj"]),
        "param": (["register"], ["QUAL"], ["obj"]),
        "member": ([], ["QUAL", "alignment-specifier"], ["obj", "anon"]),
        "tname": ([], ["QUAL"], ["obj"]),
        "atomic": ([], [], ["obj"]),
    }
    sc_step = {
        ("-", "typedef"): "td", ("-", "SE"): "se", ("-", "AR"): "x",
        ("-", "register"): "x", ("-", "_Thread_local"): "tl",
        ("se", "_Thread_local"): "tlse", ("tl", "SE"): "tlse",
    }
    ts_step = {
        (0, "TYPEKW1"): 1, (1, "TYPEKW2"): 2, (2, "TYPEKW3"): 3, (3, "TYPEKW4"): 4,
        (0, "struct-or-union-specifier"): "S", (0, "enum-specifier"): "S",
        (0, "typedef-name"): "O", (0, "atomic-type-specifier"): "O",
        (0, "anonymous-struct-or-union"): "A",
    }

    def accepting(goal, sc, ts):
        if ts == 0 or sc == "tl":
            return False
        if goal == "obj":
            return sc != "td" and ts != "A"
        if goal == "td":
            return sc == "td" and ts != "A"
        if goal == "sue":
            return ts == "S"
        if goal == "anon":
            return ts == "A"
        raise AssertionError(goal)

    prods = {}
    for kind, (storage, others, goals) in kinds.items():
        for goal in goals:
            start = (goal, "-", 0)
            todo, seen = [start], {start}
            while todo:
                st = todo.pop()
                _, sc, ts = st
                rhs = []
                steps = []
                for it in storage:
                    if (sc, it) in sc_step:
                        steps.append((it, (goal, sc_step[(sc, it)], ts)))
                for (t0, it), t1 in ts_step.items():
                    if t0 != ts:
                        continue
                    if it == "anonymous-struct-or-union" and goal != "anon":
                        continue
                    if goal == "anon" and it != "anonymous-struct-or-union":
                        continue
                    if goal == "sue" and t1 != "S":
                        continue
                    if kind == "atomic" and it == "atomic-type-specifier":
                        continue
                    steps.append((it, (goal, sc, t1)))
                for it in others:
                    steps.append((it, st))
                for it, nx in steps:
                    if accepting(*nx):
                        rhs.append(it)
                    rhs.append(f"{it} {_sname(kind, nx)}")
                    if nx not in seen:
                        seen.add(nx)
                        todo.append(nx)
                prods[_sname(kind, st)] = rhs
            prods[f"{kind}-specifiers<{goal}>"] = [_sname(kind, start)]
    return prods


def _sname(kind, st):
    return f"{kind}-specifiers<{st[0]}|{st[1]}|{st[2]}>"


def _split(prods):
    return {k: [tuple(r.split()) for r in v] for k, v in prods.items()}


def merged_c11():
    """ANNEX_A with the C11 alternatives appended (no restriction)."""
    g = {k: list(v) for k, v in ANNEX_A.items()}
    for k, v in C11.items():
        g.setdefault(k, [])
        for r in v:
            if r not in g[k]:
                g[k].append(r)
    return g


def build():
    """The production dict that C01 enumerates: nonterminal -> list of tuples."""
    g = merged_c11()
    for k in TEN_LEVELS:
        del g[k]
    g.update({k: list(v) for k, v in COLLAPSED.items()})
    for k in REMOVED:
        del g[k]
    g.update({k: list(v) for k, v in RESTRICTED.items()})
    g.update(_specifier_lists())
    # (iii) declarators of a typedef declaration: same productions, the
    # declared identifier is a fresh name
    g["td-declarator"] = ["pointer? td-direct-declarator"]
    g["td-direct-declarator"] = [
        r.replace("direct-declarator", "td-direct-declarator")
        .replace("( declarator )", "( td-declarator )")
        if r != "identifier" else "identifier/typedef-declared"
        for r in g["direct-declarator"]
    ]
    return _split(g)


def unrestricted_ten_levels():
    """Expression part of ANNEX_A+C11 with one terminal per operator (used by
    the audit that the collapse preserves the language)."""
    g = merged_c11()
    return _split(g)


# ---------------------------------------------------------------------------
# rendering and substitutions
# ---------------------------------------------------------------------------
# fresh typedef names (never members of the identifier class)
FRESH = ["U1", "V1", "W1", "X1", "Y1", "Z1", "U2", "V2", "W2", "X2"]


def spell(symbols):
    """Sentence (sequence of terminal symbols) -> list of spellings."""
    out = []
    k = 0
    for s in symbols:
        if s == "identifier/typedef-declared":
            out.append(FRESH[k])
            k += 1
        elif s in TERMINALS:
            out.append(TERMINALS[s][0])
        else:
            out.append(s)
    return out


_OPEN = {"(": ")", "[": "]", "{": "}"}
_CLOSE = {")": "(", "]": "[", "}": "{"}
_KW = ("TYPEKW1", "TYPEKW2", "TYPEKW3", "TYPEKW4")


def keyword_groups(symbols):
    """Positions of the simple type keywords of each specifier list.  The k-th
    keyword of a list is TYPEKWk; the members of one list sit at the same
    bracket depth inside the same bracket, in increasing k."""
    groups = []
    stack = [[]]  # per open bracket: the group being collected
    for i, s in enumerate(symbols):
        if s in _OPEN:
            stack.append([])
        elif s in _CLOSE:
            cur = stack.pop()
            if cur:
                groups.append(cur)
        elif s in _KW:
            cur = stack[-1]
            if s == "TYPEKW1":
                if cur:
                    groups.append(cur)
                stack[-1] = [i]
            else:
                assert cur and len(cur) == _KW.index(s), (symbols, i)
                cur.append(i)
    for cur in stack:
        if cur:
            groups.append(cur)
    return sorted(groups)


def substitutions(symbols, following=None):
    """All single-position vocabulary substitutions of a sentence, as lists of
    spellings: each position holding a class terminal is re-spelled with every
    other member of its class; each keyword group is replaced by every other
    6.7.2p2 multiset of the same size in every order.  `following` is the
    token that follows the sentence in its frame (for the `_Atomic (` guard)."""
    base = spell(symbols)
    out = []
    n = len(symbols)
    for i, s in enumerate(symbols):
        t = TERMINALS.get(s)
        if not t:
            continue
        for m in t[1]:
            nxt = symbols[i + 1] if i + 1 < n else following
            if m == "_Atomic" and nxt == "(":
                continue  # 6.7.2.4p4: `_Atomic (` is always the specifier
            v = list(base)
            v[i] = m
            out.append(v)
    ms = keyword_multisets()
    for grp in keyword_groups(symbols):
        cur = tuple(base[i] for i in grp)
        for alt in ms[len(grp)]:
            if alt == cur:
                continue
            v = list(base)
            for i, w in zip(grp, alt):
                v[i] = w
            out.append(v)
    return out

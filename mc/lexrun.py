"""Drive the real stand-alone CLexer with a recording (non-raising) error
callback.  Shared by C09 and C10."""
from __future__ import annotations


def _never(_name):
    return False


def _site(exc):
    from mc import core

    return core.exc_site(exc)


class LexRun:
    """One complete run of CLexer over a text.

    events : [('tok', type, value, line, column, filename_after) |
              ('err', msg, line, column)]  in call order
    toks   : the 'tok' events without the tag
    errs   : [(msg, line, column)]
    calls  : number of token() calls made (the last one returned None, unless
             the call budget was exhausted -> terminated is False)
    final_filename : CLexer.filename after end of input
    exc    : None, or "ExcType@module.function" (innermost pycparser frame) of
             an exception that escaped CLexer.input()/token(); the run stops
             there (terminated stays False).  The error callback used here
             never raises, so any exception is the lexer's own.
    exc_repr : repr of that exception
    """

    __slots__ = ("events", "toks", "errs", "calls", "terminated", "final_filename",
                 "exc", "exc_repr")


def run_lexer(text, filename="", is_type=None, max_calls=None):
    from pycparser.c_lexer import CLexer

    r = LexRun()
    r.events = ev = []
    r.toks = toks = []
    r.errs = errs = []

    def on_err(msg, line, column):
        errs.append((msg, line, column))
        ev.append(("err", msg, line, column))

    r.exc = r.exc_repr = None
    r.terminated = False
    r.calls = 0
    r.final_filename = filename
    try:
        lx = CLexer(on_err, lambda: None, lambda: None, is_type or _never)
        lx.input(text, filename)
    except Exception as e:  # noqa
        r.exc, r.exc_repr = _site(e), repr(e)[:200]
        return r
    budget = len(text) + 2 if max_calls is None else max_calls
    calls = 0
    while calls < budget:
        try:
            t = lx.token()
        except Exception as e:  # noqa
            r.exc, r.exc_repr = _site(e), repr(e)[:200]
            r.calls = calls + 1
            try:
                r.final_filename = lx.filename
            except Exception:  # noqa
                pass
            return r
        calls += 1
        if t is None:
            r.terminated = True
            break
        rec = (t.type, t.value, t.lineno, t.column, lx.filename)
        toks.append(rec)
        ev.append(("tok",) + rec)
    r.calls = calls
    r.final_filename = lx.filename
    return r


def line_starts(text):
    """Offsets at which physical lines 1, 2, ... start."""
    out = [0]
    i = text.find("\n")
    while i >= 0:
        out.append(i + 1)
        i = text.find("\n", i + 1)
    return out

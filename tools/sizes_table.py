#!/venv/bin/python
"""Rewrites the 'measured size of the last quick run' table of DESIGN.md
(between the SIZES markers) from /verif/evidence/*.json."""
import glob, json, re

rows = []
for f in sorted(glob.glob("/verif/evidence/C*.json")):
    e = json.load(open(f))
    c = e["coverage"]
    def g(k):
        v = c.get(k)
        return "-" if v is None else f"{v:,}" if isinstance(v, int) else str(v)
    kf = c.get("known_finding_hits") or {}
    rows.append(f"| {e['property_id']} | {e['tier']} | {g('evaluations')} | {g('distinct_nontrivial')} | {g('states')} | {g('transitions')} | "
                f"{len(e.get('violations') or [])} | {len(kf)} | {e.get('wall_s', 0):.0f} s |")
tbl = ["<!-- SIZES:BEGIN -->",
       "| id | tier | evaluations | distinct non-trivial | states | transitions | violations | known findings hit | wall |",
       "|----|------|-------------|----------------------|--------|-------------|------------|--------------------|------|"] + rows + ["<!-- SIZES:END -->"]
p = "/verif/DESIGN.md"
s = open(p).read()
assert "<!-- SIZES:BEGIN -->" in s
s = re.sub(r"<!-- SIZES:BEGIN -->.*<!-- SIZES:END -->", lambda m: "\n".join(tbl), s, flags=re.S)
open(p, "w").write(s)
print(len(rows), "rows")

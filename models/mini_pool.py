"""POOL-M: hand-written C programs (no preprocessing needed) that together
contain every one of the 49 node classes of pycparser/_c_ast.cfg, string and
character constants with quotes / backslashes / non-ASCII characters, empty
lists (`struct S {}`, `f()`, `{}`) and absent optional children (`for (;;);`,
`return;`, `if` without `else`, `struct S;`, `int f();`, unnamed bit-fields).

`verify()` checks mechanically (walking `__slots__`, not children()) that each
program parses on the tree under test and that all cfg classes occur; the
checks that use the pool call it and fail if it does not hold.

`load_pool(tier)` is what C14/C15 iterate over: the shared program pool of
mc/progpool.py when that module is importable, always united with PROGRAMS and
the repository corpus (de-duplicated by text, order deterministic).
"""
from __future__ import annotations

PROGRAMS = [
    # --- declarations -----------------------------------------------------
    "int a;",
    "_Alignas(8) int x;",
    "_Pragma(\"s\")",
    "struct S {};",
    "int f() {}",
    "int a, *b, **c, d[3], e[2][3], (*f)(int), *(*g[4])(void);",
    "static const unsigned long int x = 5UL; extern volatile char *const p;",
    "typedef int T; typedef T *PT; T t1; PT t2; typedef struct S S_t; typedef int (*cb_t)(T, ...);",
    "int f(); int g(void); int h(int, char **argv); void v(int n, ...); int k(int a[static 3], int b[const], int c[*]);",
    "struct S; struct S { int a; char b : 3; unsigned : 0; struct { int z; }; union U { int i; float f; } u; } s1, *s2;",
    "struct E {}; union V {}; struct E e1;",
    "enum Color { RED, GREEN = 2, BLUE = GREEN + 1, } col; enum Fwd; enum { ANON } an;",
    "_Alignas(8) int al1; _Alignas(double) char al2; struct A { _Alignas(16) int m; };",
    "_Static_assert(sizeof(int) >= 2, \"int too small\"); _Static_assert(1);",
    "_Noreturn void die(void); inline static int il(void) { return 1; } _Thread_local int tl;",
    "_Atomic int at1; _Atomic(int) at2; _Atomic(int *) at3; int *_Atomic at4; _Bool bb; _Complex double cd; __int128 big;",
    "int arr1[] = {1, 2, 3}; int arr2[5] = {[0] = 1, [2] = 7}; struct P { int x, y; } pt = {.x = 1, .y = 2}, pts[] = {[1].x = 3, {4, 5}};",
    "int nested[2][2] = {{1, 2}, {3, 4}}; int emptyinit[1] = {}; struct Q { int a[2]; struct { int b; } in; } q = {.a[1] = 2, .in.b = 3};",
    "char *s1 = \"plain\"; char *s2 = \"with \\\"quotes\\\" and 'single'\"; char *s3 = \"back\\\\slash\\n\\t\\x41\\101\\0\";",
    "char *s4 = \"café üñíçødé 中文\"; char *s5 = \"\"; char *s6 = \"a\" \"b\" \"c\";",
    "char c1 = 'a'; char c2 = '\\''; char c3 = '\"'; char c4 = '\\\\'; char c5 = '\\n'; char c6 = '\\0'; char c7 = '\\x7f'; int c8 = 'ab';",
    "int wc1 = L'a'; int wc2 = u'b'; int wc3 = U'c'; int wc4 = u8'd'; void *ws1 = L\"wide \\\"q\\\"\"; void *ws2 = u8\"u8\"; void *ws3 = u\"u\"; void *ws4 = U\"U\";",
    "int i1 = 0, i2 = 017, i3 = 0x1F, i4 = 0b101, i5 = 10u, i6 = 10l, i7 = 10ull, i8 = 10LLU;",
    "double d1 = 1.0, d2 = .5, d3 = 1., d4 = 1e10, d5 = 1.5e-3f, d6 = 2.0L, d7 = 0x1.8p3, d8 = 0x.1p-2f;",
    "int (*fp)(int (*)(void), char *[]); int (*afp[3])(int); int (*(*ffp)(int))(char); void (*sig(int s, void (*h)(int)))(int);",
    "const int *const *volatile *restrict crp; int *restrict rp; char const cc1;",
    # round 8: repeated qualifiers in an array bound (6.7.3p4), before and after `static`
    "void dq1(int a[const const static 3]); void dq2(int a[static const const 3]); void dq3(int a[const const 3], int b[const volatile const *]);",
    # round 8: an _Atomic(T) specifier followed by a redeclared typedef name
    "typedef int T; void at5(void) { _Atomic(int) T; T = 1; } void at6(void) { static _Atomic(long) T, *q; }",
    # round 8: a qualified array bound that starts with a dereference; assignment / comma index in offsetof
    "void ab1(int *p, int a[const *p], int b[restrict *p + 1]); struct OS { int a[4]; }; int ab2(int i, int j) { return offsetof(struct OS, a[i, j]) + offsetof(struct OS, a[i = 2]); }",
    # round 8: a label / case prefix directly followed by a typedef-named label
    "typedef int T; typedef int U; typedef int V; int lb1(int x) { L: T: x = 1; switch (x) { case 1: U: x = 2; default: V: ; } return x; }",
    # --- K&R, function definitions ----------------------------------------
    "int knr(a, b, c) int a; char *b; double c; { return a; }",
    "int knr2(a) { return a; }",
    "void empty(void) {}",
    "int main(int argc, char **argv) { return 0; }",
    "static int *ptrfn(int x) { static int y; y = x; return &y; }",
    "struct R { int v; } mk(int v) { struct R r = {v}; return r; }",
    # --- statements -------------------------------------------------------
    "void st1(int n) { if (n) n = 1; if (n > 1) { n = 2; } else n = 3; if (n) ; else if (n == 2) n--; else { } }",
    "void st2(int n) { while (n) n--; do n++; while (n < 10); do { } while (0); while (1) { break; } }",
    "void st3(void) { int i; for (;;) ; for (i = 0; i < 3; i++) continue; for (int j = 0, k = 1; j < k; j++, k--) { } for (i = 0; ; ) break; for (; i; ) ; }",
    "int st4(int n) { switch (n) { case 0: return 1; case 1: case 2: n++; break; default: n = 0; } switch (n) ; switch (n) { } switch (n) default: ; return n; }",
    "void st5(int n) { goto end; again: n++; if (n < 3) goto again; end: ; }",
    "void st6(void) { ; ; { ; } { { } } }",
    "int st7(void) { return; }",
    "void st8(int x) { int a = x, b; typedef int L; L c = a; { int a; a = c; } b = a; }",
    "void st9(int n) { switch (n) { int z; case 1: z = 1; { case 4: z = 2; } default: break; } }",
    # --- expressions ------------------------------------------------------
    "int e1(int a, int b) { return a + b * 2 - (a / b) % 3 << 1 >> 2 & a | b ^ ~a; }",
    "int e2(int a, int b) { return a < b && a <= b || a > b == (a >= b) != !a; }",
    "void e3(int a, int b) { a = b; a += 1; a -= 1; a *= 2; a /= 2; a %= 2; a <<= 1; a >>= 1; a &= 1; a |= 1; a ^= 1; }",
    "void e4(int a, int *p) { ++a; a++; --a; a--; -a; +a; !a; ~a; *p; &a; *p++; (*p)++; *&a; - -a; }",
    "int e5(int a, int b, int c) { return a ? b : c ? a : b; }",
    "int e6(int a) { return (a, a + 1, a + 2); }",
    "struct M { int f; struct M *next; int arr[3]; }; int e7(struct M m, struct M *p) { return m.f + p->f + p->next->next->f + m.arr[1] + p->arr[m.f] + (*p).f; }",
    "int fn(int, ...); int e8(int a) { return fn(a) + fn(a, 1, 2) + fn(fn(a), fn(1)) + (fn)(0) + (*fn)(1); }",
    "int noargs(); int e9(void) { return noargs(); }",
    "unsigned long e10(int a) { return sizeof a + sizeof(a) + sizeof(int) + sizeof(int *) + sizeof(struct { int x; }) + _Alignof(int) + sizeof(int[3]) + sizeof(int (*)(void)); }",
    "double e11(int a) { return (double)a + (float)(a) + (int)(char)a + (int *)0 == (void *)0 + (unsigned long)a; }",
    "struct V2 { int x, y; }; int e12(void) { struct V2 v = (struct V2){1, 2}; int *q = (int[]){1, 2, 3}; return ((struct V2){.y = 3}).y + v.x + q[0]; }",
    "int e13(int a[], int i, int j) { return a[i] + a[i + j] + a[a[i]] + i[a] + (a + 1)[j]; }",
    "int e14(int a) { return a = a + 1, a ? a = 2 : 3; }",
    "unsigned long e15(void) { return offsetof(struct { int a; int b[3]; }, b[1]) + offsetof(struct { struct { int c; } a; }, a.c); }",
    "int e16(const char *s) { return s == \"lit\" || *\"x\" == 'x' || \"abc\"[1] == 'b'; }",
    "int e17(int a, int b) { return ((a)) + (((b))) * ((a + b)); }",
    # --- pragmas, _Pragma, misc ------------------------------------------
    "#pragma once\nint pg1;\n#pragma pack(push, 1)\nstruct PK { char c; int i; };\n#pragma pack(pop)\n",
    "void pg2(int n) {\n#pragma omp parallel for\n  for (int i = 0; i < n; i++) ;\n  if (n)\n#pragma inner\n    n = 0;\n}",
    "_Pragma(\"top level\") int pg3; void pg4(void) { _Pragma(\"inside \\\"q\\\"\") ; }",
    "struct SP {\n#pragma in_struct\n  int x;\n};",
    "# 1 \"dir/file name.c\"\nint lm1;\n# 10 \"other.h\" 1\nint lm2;\n#line 20\nint lm3;",
    "typedef int TT; void sc1(void) { TT TT; TT = 1; } void sc2(TT x) { int TT = x; { TT++; } } struct TS { TT TT; };",
    "typedef char CH; int sc3(int CH) { return CH * 2; } CH sc4;",
    "void lbl(void) { l1: l2: ; { l3: lbl(); } }",
    "int vla(int n) { int a[n]; int b[n][n + 1]; return sizeof a + sizeof(b); }",
    "void (*tbl[])(void) = {empty_fn, 0}; extern void empty_fn(void);",
    "int big(int a, int b, int c, int d) { if (a) { while (b) { for (;;) { switch (c) { case 1: do { if (d) goto out; } while (d--); } } } } out: return a ? b : c; }",
]


# Shapes used by C14/C15 only (load_pool); not part of PROGRAMS, which the
# shared pool of mc/progpool.py hands to every other check.
def _extra_programs():
    out = []
    # _Atomic( type-name ) with array / pointer / function declarators inside, in every position
    for t in ["int [3]", "long *[2]", "int [2][3]", "char *[4]", "int (*)[2]", "int *", "int (*)(int [2])",
              "struct S [2]", "unsigned char [1]"]:
        out += [f"_Atomic({t}) x;", f"int z = sizeof(_Atomic({t}));", f"typedef _Atomic({t}) at_t; at_t v;",
                f"struct SA {{ _Atomic({t}) m; int n; }};", f"void fa(_Atomic({t}) p, int q);",
                f"void fb(void) {{ _Atomic({t}) loc; (void)(_Atomic({t}) *)0; }}"]
    # switch bodies: case/default labels directly followed by pragma lines and by another label
    labels = ["case 1:", "case 2:", "default:"]
    pragmas = ["", "#pragma one\n", "#pragma one\n#pragma two\n", "#pragma a\n#pragma b\n#pragma c\n"]
    import itertools
    for l1, l2 in itertools.permutations(labels, 2):
        for p1 in pragmas:
            for p2 in pragmas[:2]:
                for tail in ["n++; break;", ";", ""]:
                    if not tail and not p2:
                        body = f"{l1}\n{p1}{l2} ;"
                    else:
                        body = f"{l1}\n{p1}{l2}\n{p2}{tail}" + ("" if tail else ";")
                    out.append(f"void sw(int n) {{ switch (n) {{ {body} }} }}")
    for l1, l2, l3 in itertools.permutations(labels, 3):
        out.append(f"void sw3(int n) {{ switch (n) {{ {l1} n++;\n#pragma mid\n{l2}\n#pragma x\n#pragma y\n{l3}\n#pragma last\n; }} }}")
    out.append("void swn(int n) { switch (n) { case 1: { case 2:\n#pragma in\ncase 3: ; }\n#pragma out\ndefault: ; } }")
    # coordinates at the boundaries: line 0, line 1, huge lines, empty file name
    out += [
        "#line 0\nint l0; int l0b;\n# 0 \"zero.c\"\nint l1; void zf(int a) { return; }\n",
        "# 4294967295 \"huge.c\"\nint l2;\n# 1 \"\"\nint l3;\n#line 2147483647\nint l4;\n# 1 \"one.c\" 1\nint l5;",
        "#line 0\n#pragma at zero\nint pz = 1 + 2; struct Z { int m; } z0;",
        "# 0 \"\"\nint e0 = (0);",
    ]
    # pragma texts that end in backslashes / contain quotes / non-ASCII
    for text in ["omp parallel \\", "two \\\\", "three \\\\\\", "q \"dq\" 'sq' \\", "caf\u00e9 \u4e2d \\", "\\", "\\\\",
                 "'", "\"", "a'b\"c\\", "mid\\dle", "r'raw' \\"]:
        out.append(f"#pragma {text}\nint pc;")
        out.append(f"void pf(void) {{\n#pragma {text}\n  ;\n}}")
        out.append(f"struct PS {{\n#pragma {text}\n  int m;\n}};")
    seen = set()
    return [t for t in out if not (t in seen or seen.add(t))]


EXTRA_PROGRAMS = _extra_programs()


def verify():
    """(ok, message, class_histogram): every program parses on the tree under
    test; every class named in _c_ast.cfg occurs in some AST (found by walking
    __slots__, including attribute slots such as Decl.align)."""
    import os
    import re

    from pycparser import c_ast
    from mc import core

    cfg = os.path.join(os.path.dirname(c_ast.__file__), "_c_ast.cfg")
    names = []
    with open(cfg) as f:
        for line in f:
            m = re.match(r"^([A-Za-z_]\w*)\s*:", line)
            if m:
                names.append(m.group(1))
    hist = {}

    def walk(x):
        if isinstance(x, c_ast.Node):
            k = x.__class__.__name__
            hist[k] = hist.get(k, 0) + 1
            for s in x.__slots__:
                if s not in ("coord", "__weakref__"):
                    walk(getattr(x, s))
        elif isinstance(x, (list, tuple)):
            for e in x:
                walk(e)

    bad = []
    for i, p in enumerate(PROGRAMS):
        out = core.parse_outcome(p, f"mini{i}.c")
        if out[0] != "ok":
            bad.append((i, out[1:]))
        else:
            walk(out[1])
    missing = [n for n in names if n not in hist]
    ok = not bad and not missing and len(names) > 0
    return ok, f"unparsed={bad[:3]} missing_classes={missing}", hist


def load_pool(tier):
    """-> (programs [(origin, text)], sizes {part: n}, source description)."""
    from mc import corpus

    progs = []
    sizes = {}
    try:
        from mc import progpool
    except ImportError:
        progpool = None
    if progpool is not None:
        shared = list(progpool.build_pool(tier))
        progs += shared
        sizes["progpool"] = len(shared)
        for k, v in (getattr(progpool.build_pool, "sizes", None) or {}).items():
            sizes["progpool/" + k] = v
    progs += [(f"M:{i}", p) for i, p in enumerate(PROGRAMS)]
    sizes["M"] = len(PROGRAMS)
    progs += [(f"X:{i}", p) for i, p in enumerate(EXTRA_PROGRAMS)]
    sizes["X"] = len(EXTRA_PROGRAMS)
    ks = [(f"K:{n}", t) for n, t in corpus.corpus(tier)]
    progs += ks
    sizes["K"] = len(ks)
    seen = set()
    out = []
    for o, t in progs:
        if t in seen:
            continue
        seen.add(t)
        out.append((o, t))
    sizes["distinct"] = len(out)
    src = "mc.progpool.build_pool + mini_pool + corpus" if progpool else "mini_pool + corpus (progpool not importable)"
    return out, sizes, src

"""C06 - parse() returns a FileAST or raises ParseError with a location; nothing
else.  Stateless exploration of the real parser with the lexer as environment
(TokEx), 1-edit neighbourhood of the small corpus files, raw character strings.
"""
from __future__ import annotations

import itertools

from mc import core, tokex, corpus
from models import vocab

PID = "C06"
CHARS = list("a01'\"\\/*#.+-(){}; \n@")


import re

# '#' need not start the line for the lexer, and no blank is needed before the name ('#0""')
_DIRECTIVE_FILE = re.compile(r'#[ \t]*(?:line[ \t]*)?\d+[ \t]*"((?:\\.|[^"\\\n])*)"')


def oracle(out, filename, text=None):
    """None if fine, else a failure signature.  The location may name the file
    given to parse() or any file named by a line directive of the text."""
    if out[0] in ("ok", "rec"):
        return None
    if out[0] == "perr":
        if core.perr_has_location(out[1], filename):
            return None
        if text is not None and "#" in text:
            for f in set(_DIRECTIVE_FILE.findall(text)):
                if core.perr_has_location(out[1], f):
                    return None
        return "perr-without-location"
    return out[1]


def tok_visitor(child, toks, text, out, viable, stats, fails, extra):
    sig = oracle(out, tokex.FILENAME)
    if sig is not None:
        fails.append((sig, {"text": text, "filename": tokex.FILENAME}, out[-1]))
    if out[0] == "ok":
        if not vocab.balanced(toks):
            pass  # C18's subject
        if len(extra) < 3:
            extra.append(text)


def _char_work(task):
    alphabet, first_chars, L, filename = task
    n = 0
    fails = []
    hist = {}
    nontrivial = 0
    for fc in first_chars:
        for l in range(0, L):
            for rest in itertools.product(alphabet, repeat=l):
                s = fc + "".join(rest)
                out = core.parse_outcome(s, filename)
                n += 1
                k = out[0] if out[0] != "exc" else out[1]
                hist[k] = hist.get(k, 0) + 1
                if out[0] == "ok" or (out[0] == "perr" and "Illegal" not in out[1]):
                    nontrivial += 1
                sig = oracle(out, filename, s)
                if sig is not None:
                    fails.append((sig, {"text": s, "filename": filename}, out[-1]))
    return n, fails, hist, nontrivial


LIT_CHARS = list("018ulLUxbep.+'\"\\a")


def _lit_work(task):
    """All strings <= L over a literal-oriented alphabet, embedded as an
    initializer: reaches the constant-typing code of the parser."""
    first, L = task
    n = 0
    fails = []
    hist = {}
    nontrivial = 0
    for l in range(0, L):
        for rest in itertools.product(LIT_CHARS, repeat=l):
            s = "int x = " + first + "".join(rest) + " ;"
            out = core.parse_outcome(s, "f.c")
            n += 1
            k = out[0] if out[0] != "exc" else out[1]
            hist[k] = hist.get(k, 0) + 1
            if out[0] == "ok":
                nontrivial += 1
            sig = oracle(out, "f.c")
            if sig is not None:
                fails.append((sig, {"text": s, "filename": "f.c"}, out[-1]))
    return n, fails, hist, nontrivial


SPECIMENS = [
    "int x;\n#pragma once",
    "#pragma",
    "int x;\n#line 7 \"f.h\"",
    "int x;\n# 7 \"f.h\" 1 3",
    "#line 7",
    "void f(void){\n#pragma omp parallel for\n  for(;;) ; }\n_Pragma(\"x\")",
    "char *s = \"abc\\n\" L\"d\"; int c = 'a' + L'\\0' + '\\x41';",
    "struct S { int a : 3; unsigned : 0; } s = { .a = 1 }; enum E { A = 1, B } e;",
    "int f(int a, ...) { switch (a) { case 1: default: break; } L: goto L; return sizeof(int[2]) + _Alignof(long); }",
    "typedef int T; _Atomic(T) t; _Alignas(8) int v[3] = { [1] = 2 }; _Static_assert(1, \"m\");",
    "double d = 1.5e3 + 0x1.8p1 + .5f; int k = 0x1F + 0b11 + 077 + 1ull;",
]


def _trunc_work(task):
    """Every character-level prefix of a text (end of input can fall anywhere:
    inside a directive, a literal, a token)."""
    name, text = task
    n = 0
    fails = []
    hist = {}
    for k in range(len(text) + 1):
        for fname in ("f.c",):
            s = text[:k]
            out = core.parse_outcome(s, fname)
            n += 1
            kk = out[0] if out[0] != "exc" else out[1]
            hist[kk] = hist.get(kk, 0) + 1
            sig = oracle(out, fname, s)
            if sig is not None:
                fails.append((sig, {"text": s, "filename": fname}, out[-1]))
    return n, fails, hist


# characters outside ASCII (letters of several scripts, symbols, a non-breaking
# space, a superscript digit) mixed with a few ASCII ones
NONASCII_CHARS = list("\u00e9\u00df\u00b5\u03bb\u0416\u4e2d\u20ac\u00a0\u00b2a1 ;\"'_")


def _nonascii_work(task):
    first, L = task
    n = 0
    fails = []
    hist = {}
    for l in range(0, L):
        for rest in itertools.product(NONASCII_CHARS, repeat=l):
            body = first + "".join(rest)
            for s in (body, "int " + body + " ;", "int x = " + body + " ;"):
                out = core.parse_outcome(s, "f.c")
                n += 1
                k = out[0] if out[0] != "exc" else out[1]
                hist[k] = hist.get(k, 0) + 1
                sig = oracle(out, "f.c", s)
                if sig is not None:
                    fails.append((sig, {"text": s, "filename": "f.c"}, out[-1]))
    return n, fails, hist


def _edit_work(task):
    name, toks, edits = task
    n = 0
    fails = []
    hist = {}
    for kind, i, t in edits:
        if kind == "del":
            m = toks[:i] + toks[i + 1 :]
        elif kind == "dup":
            m = toks[: i + 1] + toks[i:]
        elif kind == "swap":
            m = toks[:i] + [toks[i + 1], toks[i]] + toks[i + 2 :]
        elif kind == "trunc":
            m = toks[:i]
        elif kind == "ins":
            m = toks[:i] + [t] + toks[i:]
        else:
            m = toks[:i] + [t] + toks[i + 1 :]
        text = " ".join(m) + " "
        out = core.parse_outcome(text, name)
        n += 1
        k = out[0] if out[0] != "exc" else out[1]
        hist[k] = hist.get(k, 0) + 1
        sig = oracle(out, name)
        if sig is not None:
            fails.append((sig, {"text": text, "filename": name, "edit": [kind, i, t]}, out[-1]))
    return n, fails, hist


def run(tier):
    R = core.Run(PID, tier, "model_checking")
    quick = tier == "quick"
    samples = []
    states = transitions = 0
    decided = 0
    hist = {}

    def merge(h):
        for k, v in h.items():
            hist[k] = hist.get(k, 0) + v

    # (a) TokEx
    plan = []
    for ctx in vocab.CONTEXTS:
        plan.append((ctx, "SIGMA", vocab.SIGMA, 3 if quick else 4))
    for ctx in ("file", "func"):
        plan.append((ctx, "SIGMA_R", vocab.SIGMA_R, 5 if quick else 6))
    for ctx in vocab.SPEC_CONTEXTS:
        n_spec = (6 if ctx == "atomic-decl" else 5) if quick else 7
        plan.append((ctx, "SPEC_SIGMA", vocab.SPEC_SIGMA, n_spec))
    levels = {}
    nontriv = 0
    for ctx, vname, voc, N in plan:
        prefix = vocab.CONTEXTS.get(ctx) or vocab.SPEC_CONTEXTS[ctx]
        r = tokex.explore(prefix, voc, N, tok_visitor)
        R.fail_many(r["fails"])
        merge(r["stats"])
        states += r["viable_total"]
        transitions += r["executions"]
        decided += r["decided"]
        nontriv += sum(l[0] for l in r["levels"]) + r["stats"].get("ok", 0)
        levels[f"{ctx}/{vname}/N={N}"] = r["levels"]
        samples.extend(r["extra"][:2])
    # mechanical check of the reduction argument
    chk, bad = tokex.check_reduction(vocab.CONTEXTS["file"], vocab.SIGMA_R, 2)
    if bad:
        R.fail("reduction-unsound", {"examples": bad[:3]}, "an extension of a non-viable string changed the outcome")
    R.set("reduction_extensions_checked", chk)

    # regression anchors: the example input of every recorded finding (any property)
    anchors = core.known_examples()
    for ex in anchors:
        for fname in ("f.c", ""):
            out = core.parse_outcome(ex, fname)
            sig = oracle(out, fname, ex)
            if sig is not None:
                R.fail(sig, {"text": ex, "filename": fname}, out[-1])
    R.set("regression_anchors", len(anchors))

    # (a') long digit runs: every place where the library converts digits to a
    # number (int() refuses more than 4300 digits, float() overflows) or where a
    # regex runs over them - around the interpreter's limit and far beyond
    long_runs = 0
    for nd in (4299, 4300, 4301, 5000) if quick else (4299, 4300, 4301, 5000, 20000, 100000):
        dec, hexd, octd, bind = "9" * nd, "f" * nd, "7" * nd, "1" * nd
        texts = [
            f"#line {dec}\nint x;", f"#line {dec} \"f.c\"\nint x;", f"# {dec} \"f.c\"\nint x;",
            f"# {dec}\nint x;", f"# 1 \"f.c\" {dec}\nint x;", f"# 1 \"f.c\" 1 {dec} 3\nint x;",
            f"#line 0{octd}\nint x;", f"#line 0x{hexd}\nint x;", f"#line {dec}u\nint x;",
            f"int x = {dec};", f"int x = 0x{hexd};", f"int x = 0{octd};", f"int x = 0b{bind};",
            f"int x = {dec}ULL;", f"int a[{dec}];", f"struct S {{ int b : {dec}; }};", f"enum E {{ A = {dec} }};",
            f"double d = {dec}.{dec}e{dec};", f"double d = 1e{dec};", f"double d = 0x1.{hexd}p{dec};",
            f"double d = .{dec}f;", f"int x = '\\{octd}';", f"int x = '\\x{hexd}';", f"char *s = \"\\x{hexd}\";",
            f"char *s = \"\\u{hexd}\";", f"_Alignas({dec}) int x;", f"#pragma {dec}\nint x;", f"int x{dec};",
            f"void f(void) {{ switch (1) {{ case {dec}: ; }} }}", f"int a[] = {{ [{dec}] = 1 }};",
        ]
        for t in texts:
            for fname in ("f.c", ""):
                out = core.parse_outcome(t, fname)
                long_runs += 1
                merge({out[0]: 1})
                sig = oracle(out, fname, t)
                if sig is not None:
                    R.fail(sig, {"text": t, "digits": nd, "template": t.replace(dec, "<D>").replace(hexd, "<H>").replace(octd, "<O>").replace(bind, "<B>")[:80],
                                 "filename": fname}, out[-1])
    R.set("long_digit_run_inputs", long_runs)

    # (a2) every code point of Latin-1 / Latin Extended-A and a sample of the
    # rest (controls, unassigned, non-characters, astral) once in each of eight
    # positions of a small program: only ParseError may come out
    cps = list(range(0, 0x180)) + [0x378, 0x2028, 0x2029, 0x200B, 0xFEFF, 0xFFFE, 0xFFFF, 0xD7FF, 0xE000,
                                   0x10FFFF, 0x1F600, 0x0663, 0xFF15, 0x1D7D3, 0x2160]
    frames = ["%sint x = 1;", "int %s x = 1;", "int x%s = 1;", "int x = 1%s;", "int x = 1;%s",
              "char *s = \"a\" %s \"b\";", "#line 3 \"f.c\" %s\nint y;", "#pragma p\n%s\nint y;"]
    cp_runs = 0
    for cp in cps:
        ch = chr(cp)
        for fr in frames:
            t = fr % ch
            out = core.parse_outcome(t, "f.c")
            cp_runs += 1
            merge({out[0]: 1})
            sig = oracle(out, "f.c", t)
            if sig is not None:
                R.fail(sig, {"text": t, "filename": "f.c", "code_point": "U+%04X" % cp}, out[-1])
    R.set("code_point_inputs", cp_runs)

    # (a3) long FLAT inputs: RecursionError is tolerated for inputs NESTED
    # deeper than the recursion limit only; k repetitions of an item that the
    # grammar does not nest (k well above the limit of 3000 every harness
    # process runs with) must parse or raise ParseError
    K = 4000 if quick else 20000
    flat = {
        "line-directives": "#line 1\n" * K + "int x;",
        "linemarkers": "# 1 \"f.c\" 1\n" * K + "int x;",
        "pragmas": "#pragma p\n" * K,
        "bare-pragmas": "#pragma\n" * K,
        "directives-in-body": "void f(void){\n" + "#line 2\n#pragma q\n" * K + "}",
        "directives-at-end": "int x;\n" + "# 7 \"g.h\"\n" * K,
        "declarations": "int x;" * K,
        "empty-statements": "void f(void){" + ";" * K + "}",
        "statements": "void f(int a){" + "a++;" * K + "}",
        "init-items": "int a[] = {" + "1," * K + "};",
        "call-args": "int x = f(" + "1," * K + "1);",
        "enumerators": "enum E {" + ",".join("A%d" % i for i in range(K)) + "};",
        "members": "struct S {" + "int m;" * K + "};",
        "strings": "char *s = " + "\"a\" " * K + ";",
        "binary-chain": "int x = " + "1+" * K + "1;",
        "comma-chain": "void f(int a){ a" + ",a" * K + "; }",
        "declarators": "int " + ",".join("v%d" % i for i in range(K)) + ";",
        "params": "void f(" + ",".join("int p%d" % i for i in range(K)) + ");",
        "postfix-chain": "int x = a" + "[1]" * K + ";",
        "blank-lines": "\n \t\n" * K + "int x;",
    }
    for name, t in flat.items():
        out = core.parse_outcome(t, "f.c")
        merge({out[0]: 1})
        sig = oracle(out, "f.c", t)
        if out[0] == "rec":
            sig = "RecursionError-on-flat-input:" + name
        if sig is not None:
            R.fail(sig, {"text": t, "filename": "f.c", "family": name, "k": K}, out[-1] if len(out) > 1 else "RecursionError")
    R.set("long_flat_inputs", len(flat))

    # (b) 1-edit neighbourhood of the small corpus files
    edits_run = 0
    maxtok = 60 if quick else 800
    ins_vocab = vocab.SIGMA_R if quick else vocab.SIGMA
    tasks = []
    for name, toks in corpus.small_corpus_tokens(maxtok):
        ed = []
        big = len(toks) > 100
        for i in range(len(toks)):
            ed.append(("del", i, None))
            ed.append(("dup", i, None))
            ed.append(("trunc", i, None))
            if i + 1 < len(toks):
                ed.append(("swap", i, None))
            for t in (vocab.SIGMA_R if big else ins_vocab):
                ed.append(("ins", i, t))
                ed.append(("rep", i, t))
        for ch in core.chunked(ed, 400):
            tasks.append((name, toks, ch))
    for n, fl, h in core.pmap(_edit_work, tasks, chunksize=1):
        edits_run += n
        R.fail_many(fl)
        merge(h)
    if tasks:
        samples.append({"corpus_edit": [tasks[0][0], tasks[0][2][5]]})

    # (c) raw character strings through parse(); (d) three file names
    L = 4 if quick else 5
    char_runs = 0
    for filename in ("", "f.c", "d:x.c"):
        LL = L if filename == "f.c" else 3
        tasks = [(CHARS, [c], LL, filename) for c in CHARS]
        if filename == "f.c":
            tasks.append((CHARS, [""], 1, filename))
        for n, fl, h, nt in core.pmap(_char_work, tasks, chunksize=1):
            char_runs += n
            nontriv += nt
            R.fail_many(fl)
            merge(h)

    # (b2) every character-level truncation of the specimens, the mini pool
    # and the small corpus files
    ttasks = [(f"specimen{i}", t) for i, t in enumerate(SPECIMENS)]
    try:
        from models import mini_pool

        ttasks += [(f"mini{i}", t) for i, t in enumerate(mini_pool.PROGRAMS)]
    except ImportError:
        pass
    ttasks += [(nm, corpus.strip_linemarkers(t)) for nm, t in corpus.corpus("quick") if len(t) < (4000 if quick else 40000)]
    trunc_runs = 0
    for n, fl, h in core.pmap(_trunc_work, ttasks, chunksize=1):
        trunc_runs += n
        R.fail_many(fl)
        merge(h)
    char_runs += trunc_runs
    R.set("truncation_runs", trunc_runs)

    # (c3) strings with characters outside ASCII
    for n, fl, h in core.pmap(_nonascii_work, [(c, 3 if quick else 4) for c in NONASCII_CHARS], chunksize=1):
        char_runs += n
        R.fail_many(fl)
        merge(h)

    # (c2) literal-shaped strings through the parser
    LL = 4 if quick else 5
    for n, fl, h, nt in core.pmap(_lit_work, [(c, LL) for c in LIT_CHARS], chunksize=1):
        char_runs += n
        nontriv += nt
        R.fail_many(fl)
        merge(h)

    R.set("states", states)
    R.set("transitions", transitions)
    R.set("traces_validated_against_impl", transitions + edits_run + char_runs)
    R.set("evaluations", transitions + edits_run + char_runs)
    R.set("distinct_nontrivial", nontriv)
    R.set("strings_decided_incl_pruned", decided)
    R.set("pruned_equivalent", decided - transitions)
    R.set("outcome_histogram", hist)
    R.set("distinct_outcomes", len(hist))
    R.set("viable_per_level", levels)
    R.set("corpus_edit_runs", edits_run)
    R.set("char_string_runs", char_runs)
    R.set("bounds", {"tokex": [(c, v, N) for c, v, _, N in plan], "chars<=": L,
                     "corpus_files_max_tokens": maxtok})
    R.assumptions += [
        "the parser reads tokens only through CLexer.token() (unread-suffix reduction; checked mechanically on all strings <= 2)",
        "RecursionError is tolerated as the property states",
    ]
    return R.finish(
        samples,
        "every token string <= N over the vocabulary after each context prefix (only strings "
        "whose run pulled end-of-input are extended; the others decide all their extensions), "
        "every 1-token edit of the small corpus files, every character string <= L. states = "
        "viable prefixes, transitions = token answers executed on the real parser. "
        "non-trivial = run consumed the whole string (viable), was accepted, or (chars) "
        "failed in the parser rather than on an illegal character",
    )


def replay(rep):
    c = rep["case"]
    out = core.parse_outcome(c["text"], c.get("filename", ""))
    print("input:", repr(c["text"]))
    print("outcome:", out[:1] + out[1:][:2] if out[0] != "ok" else "FileAST")
    sig = oracle(out, c.get("filename", ""), c["text"])
    print("oracle:", sig or "fine")
    return 1 if sig else 0

"""Baselines (and counterexample confirmations) computed in pristine processes.

The reference observation of C12 ("what a brand-new instance returns") and of
C13 ("what a task returns when it runs alone") must not be computed in a
process that has already executed pycparser code: a module-level or
class-level cache would pollute the baseline exactly like the run under test
and the comparison would be blind to it.

`start_reserve()` must be called by a check before its process (or any of its
pmap workers / threads) executes a parse / lex / generate / visit call.  It
forks a *reserve* process that never runs pycparser code itself.
`pristine_map(fn, tasks)` asks the reserve to run every task in its own
grand-child, forked from the reserve (plain os.fork, one child per
task, results through one file per child): one process per baseline, so baselines
cannot pollute each other either, at any later time of the run.

Harness code that is about to run pycparser code calls `touch(what)`;
`start_reserve` refuses to start from a touched process and every child
checks that it starts untouched, so an ordering mistake in a check is a hard
error rather than a silently polluted baseline.  Every baseline is computed
`repeat` (2) times in separate children; both results are returned so that the
caller can report a baseline that is not even stable between two pristine
processes.
"""
from __future__ import annotations

import atexit
import multiprocessing as mp
import os
import sys
import traceback

from . import core

_TOUCHED = {}  # pid -> first reason
_RESERVE = None  # (process, connection, owner pid)


def touch(what: str) -> None:
    """Record that this process is about to execute pycparser code."""
    _TOUCHED.setdefault(os.getpid(), what)


def is_pristine() -> bool:
    return os.getpid() not in _TOUCHED


def _run_jobs(jobs, nproc):
    """Every job in its own child, forked from this (pristine) process; at
    most nproc at a time; results come back through one file per child."""
    import pickle
    import shutil
    import tempfile

    import gc

    # children are short-lived: keep them from copying the whole heap (a
    # collection writes to every container's header => copy-on-write faults)
    gc.collect()
    gc.freeze()
    tmp = tempfile.mkdtemp(prefix="verif-pristine-")
    results = [None] * len(jobs)
    running = {}  # pid -> job index
    nxt = 0
    try:
        while nxt < len(jobs) or running:
            while nxt < len(jobs) and len(running) < max(1, nproc):
                fn, task = jobs[nxt]
                pid = os.fork()
                if pid == 0:
                    code = 1
                    gc.disable()
                    try:
                        sys.setrecursionlimit(3000)
                        if not is_pristine():
                            raise RuntimeError("baseline child is not pristine: " + _TOUCHED[os.getpid()])
                        out = ("ok", fn(task))
                        code = 0
                    except BaseException as e:  # noqa
                        out = ("err", f"{type(e).__name__}: {e}\n{traceback.format_exc()[-2000:]}")
                    try:
                        with open(os.path.join(tmp, f"{nxt}.tmp"), "wb") as f:
                            pickle.dump(out, f, protocol=pickle.HIGHEST_PROTOCOL)
                        os.rename(os.path.join(tmp, f"{nxt}.tmp"), os.path.join(tmp, f"{nxt}.pkl"))
                    finally:
                        os._exit(code)
                running[pid] = nxt
                nxt += 1
            pid, status = os.wait()
            i = running.pop(pid, None)
            if i is None:
                continue
            path = os.path.join(tmp, f"{i}.pkl")
            if not os.path.exists(path):
                raise RuntimeError(f"pristine child for job {i} died (status {status})")
            with open(path, "rb") as f:
                st, val = pickle.load(f)
            if st != "ok":
                raise RuntimeError("pristine child failed: " + val)
            results[i] = val
    finally:
        for pid in running:
            try:
                os.kill(pid, 9)
                os.waitpid(pid, 0)
            except OSError:
                pass
        shutil.rmtree(tmp, ignore_errors=True)
    return results


def _reserve_main(conn, other_end, owner):
    """The reserve: never runs pycparser code; forks one child per job."""
    import signal

    signal.signal(signal.SIGINT, signal.SIG_IGN)
    other_end.close()  # or the end of the owner would never be seen
    while True:
        try:
            if not conn.poll(2.0):
                if os.getppid() != owner:
                    break
                continue
            req = conn.recv()
        except (EOFError, OSError):
            break
        if req is None:
            break
        jobs, nproc = req
        try:
            if not is_pristine():
                raise RuntimeError("the reserve process is not pristine")
            conn.send(("ok", _run_jobs(jobs, nproc)))
        except BaseException as e:  # noqa
            conn.send(("err", f"{type(e).__name__}: {e}\n{traceback.format_exc()[-2000:]}"))
    os._exit(0)


def start_reserve():
    """Fork the reserve from the (still pristine) calling process."""
    global _RESERVE
    if _RESERVE is not None and _RESERVE[2] == os.getpid():
        return
    if not is_pristine():
        raise RuntimeError(
            "start_reserve called from a process that already ran pycparser code ("
            + _TOUCHED[os.getpid()] + "): baselines would be polluted")
    ctx = mp.get_context("fork")
    parent, child = ctx.Pipe()
    proc = ctx.Process(target=_reserve_main, args=(child, parent, os.getpid()), daemon=False)
    proc.start()
    child.close()
    _RESERVE = (proc, parent, os.getpid())
    atexit.register(stop_reserve)


def stop_reserve():
    global _RESERVE
    if _RESERVE is not None and _RESERVE[2] == os.getpid():
        try:
            _RESERVE[1].send(None)
            _RESERVE[0].join(5)
        except Exception:  # noqa
            pass
    _RESERVE = None


def pristine_map(fn, tasks, repeat=2):
    """[[result of fn(task) in child 1, ... in child `repeat`] for task in
    tasks]; every call in its own process, forked from the reserve."""
    tasks = list(tasks)
    if not tasks:
        return []
    if _RESERVE is None or _RESERVE[2] != os.getpid():
        start_reserve()
    jobs = [(fn, t) for t in tasks for _ in range(repeat)]
    _RESERVE[1].send((jobs, core.NPROC))
    status, flat = _RESERVE[1].recv()
    if status != "ok":
        raise RuntimeError("pristine child failed: " + flat)
    return [flat[i * repeat:(i + 1) * repeat] for i in range(len(tasks))]
